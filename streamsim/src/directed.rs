//! Directed (enumerated) program lists: the part of each property's quantifier that is small
//! enough to cover completely. They do not depend on the seed.

use crate::program::*;

fn pattern(ty: Ty, len: usize, variant: usize) -> Vec<Val> {
    (0..len)
        .map(|i| {
            if ty == Ty::Trk {
                return Val::I(i as i64);
            }
            // variant 4: like 1, plus an infinity (an ordinary non-null float)
            if variant == 4 && ty.is_float() && i == 0 {
                return Val::F(f64::INFINITY);
            }
            let variant = if variant == 4 { 1 } else { variant };
            let null = ty.nullable()
                && match variant {
                    0 => false,
                    1 => i == 1,
                    2 => i % 2 == 0,
                    _ => true,
                };
            if null {
                Val::Null
            } else if ty.is_float() {
                Val::F(((i * 7 + 3) % 5) as f64 * 1.5 - 2.0)
            } else {
                Val::I(((i * 7 + 3) % 5) as i64 - 2)
            }
        })
        .collect()
}

fn lags(len: usize) -> Vec<i32> {
    let l = len as i32;
    let mut v: Vec<i32> = (-l - 3..=l + 3).collect();
    v.extend([i32::MIN, i32::MIN + 1, i32::MAX]);
    v
}

fn fill_for(ty: Ty) -> Val {
    if ty.is_float() { Val::F(0.5) } else { Val::I(7) }
}

fn pipe(ty: Ty, data: Vec<Val>, backend: Backend, root: ViewOp, ops: Vec<Op>, terminal: Terminal) -> Program {
    Program::Pipe(Pipe { ty, data, errs: vec![], fallible: false, backend, root, ops, terminal })
}

/// every adaptor x every parameter in the band around the critical sizes x every cut point
pub fn c09_sweep(max_l: usize) -> Vec<Program> {
    let mut out = vec![];
    let to_vec = || Terminal::HandOff(Sink::TrustedToVec);
    for ty in [Ty::F64, Ty::I32, Ty::OptF64] {
        for len in 0..=max_l {
            for (bi, backend) in [Backend::Vec, Backend::Deque { head: 2 }, Backend::ArrayView { stride: -2 }]
                .into_iter()
                .enumerate()
            {
                if bi > 0 && (len == 0 || len > 4) {
                    continue;
                }
                let data = pattern(ty, len, if len > 2 { 1 } else { 0 });
                // ---- view-level hand-outs
                let mut views: Vec<ViewOp> = vec![
                    ViewOp::Titer,
                    ViewOp::TiterMap,
                    ViewOp::OptIterCast,
                    ViewOp::ToOptIter,
                    ViewOp::OptTiter,
                    ViewOp::OptIntoIter,
                ];
                for k in 0..=len + 2 {
                    for sort in [false, true] {
                        for rev in [false, true] {
                            views.push(ViewOp::VPart { k, sort, rev });
                            views.push(ViewOp::VArgPart { k, sort, rev });
                        }
                    }
                }
                for w in 1..=len + 2 {
                    views.push(ViewOp::RollIter { w });
                }
                if matches!(ty, Ty::F64 | Ty::I32) {
                    views.push(ViewOp::IterCast);
                    for n in lags(len) {
                        views.push(ViewOp::VDiff { n, fill: Some(fill_for(ty)) });
                        if ty == Ty::F64 {
                            views.push(ViewOp::VDiff { n, fill: None });
                        }
                        views.push(ViewOp::VPct { n });
                    }
                    for method in 0..3u8 {
                        views.push(ViewOp::Winsor { method, p: None });
                        views.push(ViewOp::Winsor { method, p: Some(0.25) });
                    }
                }
                for v in &views {
                    if v.out_ty(ty).is_none() {
                        continue;
                    }
                    // one run reads the hint after every single pull ...
                    out.push(pipe(
                        ty,
                        data.clone(),
                        backend.clone(),
                        v.clone(),
                        vec![Op::Next; len + 3],
                        Terminal::Drain,
                    ));
                    // ... and one run per cut point hands the rest to a raw-pointer collector
                    let cuts = if bi == 0 { len + 1 } else { 2 };
                    for c in 0..=cuts.min(len + 1) {
                        out.push(pipe(ty, data.clone(), backend.clone(), v.clone(), vec![Op::Next; c], to_vec()));
                    }
                    if v.double_ended() && len > 0 {
                        out.push(pipe(
                            ty,
                            data.clone(),
                            backend.clone(),
                            v.clone(),
                            vec![Op::NextBack, Op::Next, Op::NextBack],
                            to_vec(),
                        ));
                    }
                }
                // ---- partitions on data holding an infinity (valid, but not finite)
                if ty.is_float() && bi == 0 {
                    let inf_data = pattern(ty, len, 4);
                    for k in 0..=len + 1 {
                        for sort in [false, true] {
                            out.push(pipe(ty, inf_data.clone(), backend.clone(), ViewOp::VPart { k, sort, rev: false }, vec![Op::Next; len + 2], Terminal::Drain));
                            out.push(pipe(ty, inf_data.clone(), backend.clone(), ViewOp::VArgPart { k, sort, rev: true }, vec![Op::Next; len + 2], Terminal::Drain));
                        }
                    }
                }
                // ---- iterator-level adaptors applied to a (partially consumed) container iterator
                let mut stages: Vec<Stage> = vec![Stage::VAbs, Stage::MapId, Stage::Rev, Stage::Scan, Stage::ToTrust];
                if matches!(ty, Ty::F64 | Ty::I32) {
                    stages.push(Stage::Abs);
                }
                for n in lags(len) {
                    stages.push(Stage::Shift { n, v: fill_for(ty) });
                    stages.push(Stage::VShift { n, fill: Some(fill_for(ty)) });
                    if ty.nullable() {
                        stages.push(Stage::VShift { n, fill: None });
                    }
                }
                for k in 0..=len + 2 {
                    stages.push(Stage::Take { k });
                }
                for k in 1..=3 {
                    stages.push(Stage::StepBy { k });
                }
                for fill in [None, Some(fill_for(ty))] {
                    for mask in 0..3u8 {
                        stages.push(Stage::FFill { fill: fill.clone(), mask });
                        stages.push(Stage::BFill { fill: fill.clone(), mask });
                    }
                }
                stages.push(Stage::Fill { v: fill_for(ty) });
                let (lo, hi) = if ty.is_float() { (Val::F(-1.0), Val::F(2.0)) } else { (Val::I(-1), Val::I(2)) };
                stages.push(Stage::VClip { lo: lo.clone(), hi: hi.clone() });
                if ty.nullable() {
                    stages.push(Stage::VClip { lo: Val::Null, hi: hi.clone() });
                    stages.push(Stage::VClip { lo: lo.clone(), hi: Val::Null });
                    stages.push(Stage::VClip { lo: Val::Null, hi: Val::Null });
                }
                for nb in 0..=3usize {
                    for add_bounds in [false, true] {
                        for right in [false, true] {
                            let bins: Vec<Val> = (0..nb)
                                .map(|i| if ty.is_float() { Val::F(i as f64 * 2.0 - 2.0) } else { Val::I(i as i64 * 2 - 2) })
                                .collect();
                            let want = if add_bounds { nb + 1 } else { nb.saturating_sub(1) };
                            for nl in [want, want + 1] {
                                let labels: Vec<Val> = (0..nl)
                                    .map(|i| if ty.is_float() { Val::F(100.0 + i as f64) } else { Val::I(100 + i as i64) })
                                    .collect();
                                stages.push(Stage::VCut { bins: bins.clone(), labels, right, add_bounds });
                            }
                        }
                    }
                }
                let cuts: Vec<usize> = if bi == 0 { (0..=len).collect() } else { vec![0, 1] };
                for stg in &stages {
                    for &c in &cuts {
                        if c > len {
                            continue;
                        }
                        let mut ops = vec![Op::Next; c];
                        ops.push(Op::Wrap(stg.clone()));
                        let mut ops_more = ops.clone();
                        ops_more.extend([Op::Next, Op::Nth(1), Op::Next]);
                        out.push(pipe(ty, data.clone(), backend.clone(), ViewOp::Titer, ops_more, Terminal::Drain));
                        let term = if matches!(stg, Stage::VCut { .. }) {
                            Terminal::HandOff(Sink::TryTrustedToVec)
                        } else {
                            to_vec()
                        };
                        out.push(pipe(ty, data.clone(), backend.clone(), ViewOp::Titer, ops, term));
                    }
                    // consumed from the back first
                    if len >= 2 && bi == 0 {
                        let ops = vec![Op::NextBack, Op::Wrap(stg.clone()), Op::Next];
                        out.push(pipe(ty, data.clone(), backend.clone(), ViewOp::Titer, ops, Terminal::Drain));
                    }
                }
                // ---- a declared length (to_trust) consumed from both ends, then handed off
                if bi == 0 {
                    for script in [
                        vec![Op::Wrap(Stage::ToTrust), Op::NextBack],
                        vec![Op::Wrap(Stage::ToTrust), Op::NextBack, Op::Next, Op::NextBack],
                        vec![Op::Next, Op::Wrap(Stage::ToTrust), Op::NthBack(1), Op::Next],
                        vec![Op::Wrap(Stage::ToTrust), Op::Wrap(Stage::Rev), Op::Next, Op::NextBack],
                        vec![Op::Wrap(Stage::Scan), Op::Next],
                        vec![Op::Wrap(Stage::Scan), Op::Wrap(Stage::MapId), Op::Nth(1)],
                    ] {
                        for term in [Terminal::Drain, to_vec(), Terminal::HandOff(Sink::TrustedVec1(Container::Array1)), Terminal::HandOff(Sink::TrustedVec1(Container::Deque))] {
                            out.push(pipe(ty, data.clone(), backend.clone(), ViewOp::Titer, script.clone(), term));
                        }
                    }
                }
                // ---- two adaptors deep: shift-like over shift-like after a pull in between
                if bi == 0 && len <= 4 {
                    for n1 in [-(len as i32) - 1, -1, 1, len as i32, len as i32 + 1] {
                        for n2 in [-(len as i32) - 1, -1, 1, len as i32, len as i32 + 1] {
                            let ops = vec![
                                Op::Wrap(Stage::VShift { n: n1, fill: Some(fill_for(ty)) }),
                                Op::Next,
                                Op::Wrap(Stage::Shift { n: n2, v: fill_for(ty) }),
                                Op::Next,
                                Op::Wrap(Stage::Remat {
                                    backend: Backend::Vec,
                                    op: ViewOp::VPart { k: 1, sort: false, rev: false },
                                }),
                            ];
                            out.push(pipe(ty, data.clone(), backend.clone(), ViewOp::Titer, ops, to_vec()));
                        }
                    }
                }
            }
        }
    }
    out
}

fn subsets_upto2(n: usize) -> Vec<Vec<usize>> {
    let mut out = vec![vec![]];
    for i in 0..n {
        out.push(vec![i]);
    }
    for i in 0..n {
        for j in i + 1..n {
            out.push(vec![i, j]);
        }
    }
    if n > 2 {
        out.push((0..n).collect());
    }
    out
}

/// every collector x container x stream length x error positions; every buffer length
/// against every stream length
pub fn c19_sweep(max_l: usize) -> Vec<Program> {
    let mut out = vec![];
    let containers = [Container::Vec, Container::Deque, Container::Array1, Container::Sim, Container::Plain];
    let scan_pre = [Op::Wrap(Stage::Scan)];
    let trust_pre = [Op::Wrap(Stage::ToTrust), Op::NextBack];
    let pre: [&[Op]; 6] = [&[], &[Op::Next], &[Op::NextBack], &[Op::Next, Op::NextBack], &scan_pre, &trust_pre];
    for ty in [Ty::I32, Ty::OptF64, Ty::Trk, Ty::F64, Ty::OptI32] {
        for m in 0..=max_l {
            for variant in 0..=(match ty {
                Ty::OptF64 => 2,
                Ty::OptI32 => 1,
                _ => 0,
            }) {
                let data = pattern(ty, m, variant);
                for ops in pre.iter() {
                    if ops.iter().filter(|o| !matches!(o, Op::Wrap(_))).count() > m {
                        continue;
                    }
                    for backend in [Backend::Sim, Backend::Deque { head: 3 }] {
                        if backend != Backend::Sim && (ty == Ty::F64 || ty == Ty::OptI32 || variant > 0) {
                            continue;
                        }
                        let mut sinks = vec![Sink::TrustedToVec];
                        for c in containers {
                            sinks.push(Sink::TrustedVec1(c));
                            sinks.push(Sink::PlainVec1(c));
                            sinks.push(Sink::WithLen(c));
                            if matches!(ty, Ty::OptF64 | Ty::OptI32) {
                                sinks.push(Sink::OptCollect(c));
                            }
                        }
                        for s in sinks {
                            out.push(Program::Pipe(Pipe {
                                ty,
                                data: data.clone(),
                                errs: vec![],
                                fallible: false,
                                backend: backend.clone(),
                                root: ViewOp::Titer,
                                ops: ops.to_vec(),
                                terminal: Terminal::HandOff(s),
                            }));
                        }
                    }
                }
            }
            // fallible collection: errors at every position / pair of positions
            if ty != Ty::F64 && ty != Ty::OptI32 {
                let data = pattern(ty, m, 0);
                for errs in subsets_upto2(m) {
                    for ops in pre.iter().take(2) {
                        if ops.len() > m {
                            continue;
                        }
                        let mut sinks = vec![Sink::TryTrustedToVec];
                        if ty != Ty::Trk {
                            for c in containers {
                                // the inherited default of the fallible collectors unwraps
                                // (documented fallback): only error-free streams go there
                                if c == Container::Plain && !errs.is_empty() {
                                    continue;
                                }
                                sinks.push(Sink::TryTrusted(c));
                                sinks.push(Sink::TryPlain(c));
                            }
                        }
                        for s in sinks {
                            out.push(Program::Pipe(Pipe {
                                ty,
                                data: data.clone(),
                                errs: errs.clone(),
                                fallible: true,
                                backend: Backend::Sim,
                                root: ViewOp::Titer,
                                ops: ops.to_vec(),
                                terminal: Terminal::HandOff(s),
                            }));
                        }
                    }
                }
            }
            // buffers of every length against this stream
            if matches!(ty, Ty::I32 | Ty::Trk | Ty::OptF64) {
                let data = pattern(ty, m, 1);
                for b in 0..=max_l + 1 {
                    for buf in [
                        BufKind::Slice,
                        BufKind::SubSlice,
                        BufKind::Deque,
                        BufKind::NdView,
                        BufKind::NdStrided,
                        BufKind::NdReversed,
                        BufKind::Sim,
                        BufKind::OwnedVec,
                    ] {
                        for ops in pre.iter().take(2) {
                            if ops.len() > m {
                                continue;
                            }
                            out.push(Program::Pipe(Pipe {
                                ty,
                                data: data.clone(),
                                errs: vec![],
                                fallible: false,
                                backend: Backend::Sim,
                                root: ViewOp::Titer,
                                ops: ops.to_vec(),
                                terminal: Terminal::HandOff(Sink::Write { buf, len: b, slack: (b + ops.len()) % 3 }),
                            }));
                        }
                    }
                }
            }
            // untrusted iterators with a loose size hint into the plain collectors
            for lm in [0usize, 2, 3] {
                let mut sinks = vec![];
                for c in containers {
                    sinks.push(Sink::PlainVec1(c));
                    sinks.push(Sink::WithLen(c));
                    if matches!(ty, Ty::OptF64 | Ty::OptI32) {
                        sinks.push(Sink::OptCollect(c));
                    }
                }
                for s in sinks {
                    out.push(Program::Pipe(Pipe {
                        ty,
                        data: pattern(ty, m, if ty == Ty::OptF64 { 2 } else if lm == 3 && ty == Ty::OptI32 { 1 } else { 0 }),
                        errs: vec![],
                        fallible: false,
                        backend: Backend::Sim,
                        root: ViewOp::Titer,
                        ops: vec![Op::Wrap(Stage::Loose { m: lm })],
                        terminal: Terminal::HandOff(s),
                    }));
                }
                if ty != Ty::Trk && ty != Ty::F64 && ty != Ty::OptI32 {
                    for errs in [vec![], vec![0], vec![m.saturating_sub(1)], vec![0, m.saturating_sub(1)]] {
                        if errs.iter().any(|e| *e >= m) {
                            continue;
                        }
                        for c in containers {
                            if c == Container::Plain && !errs.is_empty() {
                                continue;
                            }
                            out.push(Program::Pipe(Pipe {
                                ty,
                                data: pattern(ty, m, 0),
                                errs: errs.clone(),
                                fallible: true,
                                backend: Backend::Sim,
                                root: ViewOp::Titer,
                                ops: vec![Op::Wrap(Stage::Loose { m: lm })],
                                terminal: Terminal::HandOff(Sink::TryPlain(c)),
                            }));
                        }
                    }
                }
            }
            // abandonment
            for c in 0..=m.min(2) {
                out.push(Program::Pipe(Pipe {
                    ty,
                    data: pattern(ty, m, 0),
                    errs: vec![],
                    fallible: false,
                    backend: Backend::Sim,
                    root: ViewOp::Titer,
                    ops: vec![Op::Next; c],
                    terminal: Terminal::Drop,
                }));
            }
        }
    }
    out
}

/// range / linspace / full / empty over small integers and floats, every container
pub fn generators(level: usize) -> Vec<Program> {
    let mut out = vec![];
    let containers = [Container::Sim, Container::Vec, Container::Deque, Container::Array1, Container::Plain];
    let int_tys = [GenTy::I32, GenTy::I64, GenTy::Usize, GenTy::OptI32];
    let float_tys = [GenTy::F64, GenTy::F32, GenTy::OptF64];
    let span = 3 + level as i64;
    // integers
    for (ti, ty) in int_tys.iter().enumerate() {
        let lo = if *ty == GenTy::Usize { 0 } else { -span };
        for a in lo..=span {
            for b in lo..=span + 2 {
                for s in [1i64, 2, 3, 4, -1, -2, -3] {
                    if *ty == GenTy::Usize && s < 0 {
                        continue;
                    }
                    for (ci, c) in containers.iter().enumerate() {
                        // every container for the first type, the simulator-owned one for the rest
                        if ci > 0 && (ti > 0 || (a + b + s) % 3 != 0) {
                            continue;
                        }
                        let start = if a == 0 && (b + s) % 2 == 0 { None } else { Some(Val::I(a)) };
                        let step = if s == 1 && b % 2 == 0 { None } else { Some(Val::I(s)) };
                        out.push(Program::Gen(Gen {
                            ty: *ty,
                            kind: GenKind::Range { start, end: Val::I(b), step },
                            out: *c,
                        }));
                    }
                }
            }
        }
        for a in lo.max(-2)..=2 {
            for b in lo.max(-3)..=6 {
                if *ty == GenTy::Usize && b < a {
                    continue;
                }
                for n in 0..=6usize {
                    out.push(Program::Gen(Gen {
                        ty: *ty,
                        kind: GenKind::Linspace {
                            start: if a == 0 { None } else { Some(Val::I(a)) },
                            end: Val::I(b),
                            n,
                        },
                        out: containers[(n + ti) % containers.len()],
                    }));
                }
            }
        }
    }
    // floats
    let steps = [0.25, 0.5, 1.0, 1.5, 0.1, 0.3, 0.7, -0.25, -0.5, -1.0, -1.5, -0.1, -0.3];
    for (ti, ty) in float_tys.iter().enumerate() {
        for a4 in -6..=6i64 {
            for b4 in -6..=8i64 {
                for s in steps {
                    if ti > 0 && (a4 + b4) % 2 != 0 {
                        continue;
                    }
                    let (a, b) = (a4 as f64 * 0.5, b4 as f64 * 0.5);
                    let c = if ti == 0 { containers[((a4 + b4).unsigned_abs() as usize) % containers.len()] } else { Container::Sim };
                    out.push(Program::Gen(Gen {
                        ty: *ty,
                        kind: GenKind::Range {
                            start: if a4 == 0 { None } else { Some(Val::F(a)) },
                            end: Val::F(b),
                            step: if s == 1.0 { None } else { Some(Val::F(s)) },
                        },
                        out: c,
                    }));
                }
                for n in 0..=7usize {
                    if ti > 0 && n % 2 == 1 {
                        continue;
                    }
                    let (a, b) = (a4 as f64 * 0.5, b4 as f64 * 0.5);
                    out.push(Program::Gen(Gen {
                        ty: *ty,
                        kind: GenKind::Linspace { start: if a4 == 0 { None } else { Some(Val::F(a)) }, end: Val::F(b), n },
                        out: containers[(n + ti) % containers.len()],
                    }));
                }
            }
        }
    }
    // float spans on a 0.1 grid: the inputs where (end - start) / step sits within rounding
    // of an integer and `start + step * (n - 1)` can land on `end`
    for ty in [GenTy::F64, GenTy::F32] {
        for a10 in 0..=10i64 {
            for b10 in 0..=30i64 {
                for s10 in [1i64, 2, 3, 4, 6, 7, -1, -2, -3] {
                    let (a, b) = if s10 > 0 { (a10, b10) } else { (b10, a10) };
                    out.push(Program::Gen(Gen {
                        ty,
                        kind: GenKind::Range {
                            start: Some(Val::F(a as f64 / 10.0)),
                            end: Val::F(b as f64 / 10.0),
                            step: Some(Val::F(s10 as f64 / 10.0)),
                        },
                        out: if (a10 + b10) % 5 == 0 { Container::Vec } else { Container::Sim },
                    }));
                }
            }
        }
    }
    // larger counts (casts of the element count, f32 precision)
    for (ty, c) in [(GenTy::F64, Container::Sim), (GenTy::F32, Container::Vec), (GenTy::I32, Container::Deque), (GenTy::I64, Container::Array1)] {
        for n in [10usize, 33, 100, 1000] {
            let (a, b) = if ty.is_float() { (Val::F(-1.5), Val::F(n as f64 * 0.25)) } else { (Val::I(-3), Val::I(n as i64 * 2 - 3)) };
            out.push(Program::Gen(Gen { ty, kind: GenKind::Linspace { start: Some(a.clone()), end: b.clone(), n }, out: c }));
            out.push(Program::Gen(Gen { ty, kind: GenKind::Linspace { start: Some(b), end: a, n }, out: c }));
        }
        let (a, b, steps): (Val, Val, Vec<Val>) = if ty.is_float() {
            (Val::F(0.0), Val::F(100.0), vec![Val::F(0.1), Val::F(0.3), Val::F(0.7), Val::F(7.0), Val::F(-0.1)])
        } else {
            (Val::I(0), Val::I(1000), vec![Val::I(1), Val::I(7), Val::I(999), Val::I(1001), Val::I(-7)])
        };
        for s in steps {
            let neg = s.as_f64() < 0.0;
            let (x, y) = if neg { (b.clone(), a.clone()) } else { (a.clone(), b.clone()) };
            out.push(Program::Gen(Gen { ty, kind: GenKind::Range { start: Some(x), end: y, step: Some(s) }, out: c }));
        }
    }
    // large magnitudes (nanosecond timestamps): the span must be taken in the element type,
    // not after a detour through f64
    for (ty, c) in [(GenTy::I64, Container::Sim), (GenTy::I64, Container::Vec), (GenTy::Usize, Container::Sim)] {
        let t0 = 1_700_000_000_000_000_000i64;
        for (a, b, s) in [
            (t0, t0 + 1000, 100i64),
            (t0 + 1, t0 + 11, 1),
            (t0, t0 + 7, 2),
            (t0 + 3, t0 + 3, 1),
            (t0 + 5, t0, 1),
            (t0, t0 + 1001, 100),
        ] {
            out.push(Program::Gen(Gen {
                ty,
                kind: GenKind::Range { start: Some(Val::I(a)), end: Val::I(b), step: if s == 1 { None } else { Some(Val::I(s)) } },
                out: c,
            }));
        }
        if ty == GenTy::I64 {
            out.push(Program::Gen(Gen { ty, kind: GenKind::Range { start: Some(Val::I(t0 + 10)), end: Val::I(t0), step: Some(Val::I(-3)) }, out: c }));
            out.push(Program::Gen(Gen { ty, kind: GenKind::Range { start: Some(Val::I(-t0)), end: Val::I(-t0 + 10), step: Some(Val::I(3)) }, out: c }));
        }
    }
    // collect_vec1_opt by element type: every None must become the element type's own null
    for ty in [GenTy::Str, GenTy::F32, GenTy::F64] {
        for c in containers {
            for mask in [vec![], vec![true], vec![false], vec![false, true, false], vec![true, true], vec![true, false, false, true]] {
                out.push(Program::Gen(Gen { ty, kind: GenKind::OptCollect { mask }, out: c }));
            }
        }
    }
    // full / empty with an element type that is Clone but not Copy
    for c in containers {
        for len in 0..=5 {
            out.push(Program::Gen(Gen { ty: GenTy::Trk, kind: GenKind::Full { len, v: Val::I(7) }, out: c }));
        }
        out.push(Program::Gen(Gen { ty: GenTy::Trk, kind: GenKind::Empty, out: c }));
    }
    // full / empty
    for ty in [GenTy::F64, GenTy::I32, GenTy::OptF64, GenTy::OptI32, GenTy::Usize] {
        for c in containers {
            for len in 0..=6 + level {
                let v = if ty.is_float() { Val::F(2.5) } else { Val::I(3) };
                out.push(Program::Gen(Gen { ty, kind: GenKind::Full { len, v }, out: c }));
                if ty == GenTy::F64 {
                    out.push(Program::Gen(Gen { ty, kind: GenKind::Full { len, v: Val::Null }, out: c }));
                }
            }
            out.push(Program::Gen(Gen { ty, kind: GenKind::Empty, out: c }));
        }
    }
    out
}

/// rolling drivers whose default (lazy) path hands an internal iterator to the output container
pub fn rolling(max_l: usize) -> Vec<Program> {
    let mut out = vec![];
    for backend in [Backend::Vec, Backend::Array1] {
        for len in 0..=max_l {
            for variant in [0, 2] {
                out.push(Program::Roll(Roll {
                    ty: Ty::F64,
                    data: pattern(Ty::F64, len, variant),
                    backend: backend.clone(),
                    driver: crate::genroll::SLICE_SWEEP,
                    window: 1,
                    other_delta: 0,
                    buf_delta: 0,
                    out: Container::Sim,
                }));
            }
        }
    }
    for backend in [
        Backend::SimInput,
        Backend::Deque { head: 0 },
        Backend::Deque { head: 3 },
        Backend::ArcDeque { head: 1 },
        Backend::Vec,
        Backend::Array1,
    ] {
        for len in 0..=max_l {
            for window in 1..=len + 2 {
                let mut drivers: Vec<u8> = (0..crate::genroll::ROLL_DRIVERS).collect();
                if matches!(backend, Backend::SimInput | Backend::Deque { .. }) {
                    drivers.push(crate::genroll::CUSTOM_OUT);
                    drivers.push(crate::genroll::CUSTOM2_OUT);
                }
                for driver in drivers {
                    if matches!(driver, 4 | 5) && !matches!(backend, Backend::Vec | Backend::Deque { .. }) {
                        continue;
                    }
                    let two_series = matches!(driver, 2 | 3 | 5 | 10 | 15);
                    let lazy_backend = matches!(backend, Backend::SimInput | Backend::Deque { .. } | Backend::ArcDeque { .. });
                    // rolling2_custom slices the second series itself: a shorter one is refused with a
                    // clean panic by the slicing (caller error), so only equal / longer ones there
                    let deltas: &[i64] = if matches!(driver, 5 | 15) && lazy_backend {
                        &[0, 1]
                    } else if two_series && lazy_backend {
                        &[0, -1, -2, 1]
                    } else {
                        &[0]
                    };
                    let buf_deltas: &[i64] = if matches!(driver, 14 | 15) { &[0, 1, 2, -1, -(len as i64)] } else { &[0] };
                    for &other_delta in deltas {
                        for &buf_delta in buf_deltas {
                            out.push(Program::Roll(Roll {
                                ty: Ty::F64,
                                data: pattern(Ty::F64, len, if len > 3 { 1 } else { 0 }),
                                backend: backend.clone(),
                                driver,
                                window,
                                other_delta,
                                buf_delta,
                                out: Container::Sim,
                            }));
                        }
                    }
                }
            }
        }
    }
    out
}


fn scripts(alphabet: &[Op], max_len: usize) -> Vec<Vec<Op>> {
    let mut out: Vec<Vec<Op>> = vec![vec![]];
    let mut frontier: Vec<Vec<Op>> = vec![vec![]];
    for _ in 0..max_len {
        let mut next = vec![];
        for s in &frontier {
            for a in alphabet {
                let mut t = s.clone();
                t.push(a.clone());
                next.push(t);
            }
        }
        out.extend(next.iter().cloned());
        frontier = next;
    }
    out
}

/// Bounded-exhaustive consumer histories around one adaptor: every script of at most `depth`
/// pulls (from either end) before the adaptor is applied, times every script of at most `depth`
/// pulls afterwards, for every adaptor at its critical parameter values and every length up to
/// `max_l`. Complete within these bounds.
pub fn c09_histories(max_l: usize, depth: usize) -> Vec<Program> {
    let mut out = vec![];
    let pre = scripts(&[Op::Next, Op::NextBack, Op::Nth(1), Op::NthBack(1)], depth);
    let post_fw = scripts(&[Op::Next, Op::Nth(0), Op::Nth(1), Op::Nth(2)], depth);
    let post_de = scripts(&[Op::Next, Op::NextBack, Op::Nth(1), Op::NthBack(0)], depth);
    for ty in [Ty::F64, Ty::OptF64] {
        for len in 0..=max_l {
            let data = pattern(ty, len, if len > 2 { 1 } else { 0 });
            let l = len as i32;
            let mut stages: Vec<Stage> = vec![
                Stage::VAbs,
                Stage::MapId,
                Stage::Rev,
                Stage::Scan,
                Stage::ToTrust,
                Stage::StepBy { k: 2 },
                Stage::FFill { fill: None, mask: 0 },
                Stage::BFill { fill: Some(fill_for(ty)), mask: 0 },
                Stage::FFill { fill: None, mask: 2 },
                Stage::BFill { fill: None, mask: 1 },
                Stage::Fill { v: fill_for(ty) },
                Stage::VClip { lo: fill_for(ty), hi: Val::Null },
            ];
            let mut lags = vec![-l - 1, -l, -1, 0, 1, l, l + 1];
            lags.sort();
            lags.dedup();
            for n in lags {
                stages.push(Stage::Shift { n, v: fill_for(ty) });
                stages.push(Stage::VShift { n, fill: None });
            }
            let mut ks = vec![0, len.saturating_sub(1), len, len + 1];
            ks.sort();
            ks.dedup();
            for k in ks {
                stages.push(Stage::Take { k });
                stages.push(Stage::Remat { backend: Backend::Vec, op: ViewOp::VPart { k, sort: false, rev: false } });
                stages.push(Stage::Remat { backend: Backend::Vec, op: ViewOp::VArgPart { k, sort: true, rev: false } });
            }
            if ty == Ty::F64 {
                for n in [-l - 1, -1, 1, l + 1] {
                    stages.push(Stage::Remat { backend: Backend::Vec, op: ViewOp::VDiff { n, fill: None } });
                    stages.push(Stage::Remat { backend: Backend::Vec, op: ViewOp::VPct { n } });
                }
            }
            stages.push(Stage::Remat { backend: Backend::Deque { head: 1 }, op: ViewOp::RollIter { w: len.max(1) } });
            for stg in &stages {
                let keeps_de = matches!(stg, Stage::MapId | Stage::Rev | Stage::ToTrust);
                let posts = if keeps_de { &post_de } else { &post_fw };
                for a in &pre {
                    for b in posts {
                        let mut ops = a.clone();
                        ops.push(Op::Wrap(stg.clone()));
                        ops.extend(b.iter().cloned());
                        let term = if (a.len() + b.len()) % 2 == 0 { Terminal::Drain } else { Terminal::HandOff(Sink::TrustedToVec) };
                        out.push(pipe(ty, data.clone(), Backend::Vec, ViewOp::Titer, ops, term));
                    }
                }
            }
        }
    }
    out
}
