//! Simulator-owned sink (stub): an implementation of the library's own public traits
//! `Vec1View + Vec1 + UninitVec + UninitRefMut`. Used as an *output type parameter* it
//! receives the iterators the library builds internally (including the crate-private
//! `Linspace`), so the simulator can interrogate `size_hint` after every pull and drain by
//! plain safe iteration - without any hook in /repo. Used as a caller buffer it logs every
//! `uset(idx, v)`.

use std::cell::RefCell;

use tea_core::prelude::*;

use crate::elem::{Obs, Obsable};

pub const DRAIN_LIMIT: usize = 4096;

#[derive(Clone, Debug)]
pub struct StreamRec {
    /// the library panicked while the container was pulling from this stream
    pub aborted: bool,
    pub trusted: bool,
    pub fallible: bool,
    /// hint read before each pull (index = items yielded so far) and once after exhaustion
    pub hints: Vec<(usize, Option<usize>)>,
    pub items: Vec<Obs>,
    pub capped: bool,
}

impl StreamRec {
    /// H1 over the forward history of an internal stream: after y of T items, hint == T - y
    pub fn first_bad_hint(&self) -> Option<(usize, Option<usize>, usize)> {
        let total = self.items.len();
        for (y, h) in self.hints.iter().enumerate() {
            if self.capped {
                // could not exhaust the stream: only an upper bound below what was
                // already seen is decidable
                if let Some(hi) = h.1 {
                    if hi < total - y {
                        return Some((y, h.1, total));
                    }
                }
            } else if h.1 != Some(total - y) {
                return Some((y, h.1, total));
            }
        }
        None
    }
}

#[derive(Default, Debug)]
pub struct SimLog {
    pub streams: Vec<StreamRec>,
}

thread_local! {
    pub static SIM_LOG: RefCell<SimLog> = RefCell::new(SimLog::default());
}

pub fn sim_log_take() -> SimLog {
    SIM_LOG.with(|l| std::mem::take(&mut *l.borrow_mut()))
}

/// if a pull panics, the unwinding guard still records that a stream had been handed over
struct AbortGuard {
    trusted: bool,
    fallible: bool,
    armed: bool,
}

impl Drop for AbortGuard {
    fn drop(&mut self) {
        if self.armed {
            let (trusted, fallible) = (self.trusted, self.fallible);
            let _ = SIM_LOG.try_with(|l| {
                if let Ok(mut l) = l.try_borrow_mut() {
                    l.streams.push(StreamRec { aborted: true, trusted, fallible, hints: vec![], items: vec![], capped: false });
                }
            });
        }
    }
}

fn interrogate<I: Iterator>(mut iter: I, trusted: bool, fallible: bool) -> (Vec<I::Item>, usize)
where
    I::Item: Obsable,
{
    let mut guard = AbortGuard { trusted, fallible, armed: true };
    let first = iter.size_hint();
    let cap = first.1.unwrap_or(DRAIN_LIMIT).min(DRAIN_LIMIT).saturating_add(16);
    let mut rec = StreamRec { aborted: false, trusted, fallible, hints: vec![], items: vec![], capped: false };
    let mut out = Vec::new();
    loop {
        rec.hints.push(iter.size_hint());
        if out.len() >= cap {
            rec.capped = true;
            break;
        }
        match iter.next() {
            Some(v) => {
                rec.items.push(v.obs());
                out.push(v);
            },
            None => break,
        }
    }
    guard.armed = false;
    let idx = SIM_LOG.with(|l| {
        let mut l = l.borrow_mut();
        l.streams.push(rec);
        l.streams.len() - 1
    });
    (out, idx)
}

#[derive(Debug, Clone)]
pub struct SimVec<T> {
    pub items: Vec<T>,
    /// slots that were never written when an uninit buffer was declared initialised
    pub holes: Vec<usize>,
    pub uset_log: Vec<usize>,
    pub uset_oob: Vec<usize>,
    pub uset_twice: Vec<usize>,
}

impl<T> SimVec<T> {
    pub fn from_vec(items: Vec<T>) -> SimVec<T> {
        SimVec { items, holes: vec![], uset_log: vec![], uset_oob: vec![], uset_twice: vec![] }
    }
}

impl<T> GetLen for SimVec<T> {
    fn len(&self) -> usize {
        self.items.len()
    }
}

impl<T: Clone> TIter<T> for SimVec<T> {
    fn titer(&self) -> impl TIterator<Item = T> + '_ {
        self.items.iter().cloned()
    }
}

impl<T: Clone> Vec1View<T> for SimVec<T> {
    type SliceOutput<'a>
        = &'a [T]
    where
        Self: 'a;

    fn slice<'a>(&'a self, start: usize, end: usize) -> TResult<&'a [T]>
    where
        T: 'a,
    {
        Ok(&self.items[start..end])
    }

    fn get_backend_name(&self) -> &'static str {
        "simvec"
    }

    unsafe fn uget(&self, index: usize) -> T {
        self.items[index].clone()
    }
}

impl<T: Clone + Obsable> Vec1<T> for SimVec<T> {
    type Uninit = SimUninit<T>;
    type UninitRefMut<'a>
        = SimBuf<'a, T>
    where
        T: 'a;

    fn collect_from_iter<I: Iterator<Item = T>>(iter: I) -> Self {
        let (items, _) = interrogate(iter, false, false);
        SimVec::from_vec(items)
    }

    fn uninit(len: usize) -> SimUninit<T> {
        SimUninit::new(len)
    }

    fn uninit_ref_mut(uninit_vec: &mut SimUninit<T>) -> SimBuf<'_, T> {
        SimBuf { u: uninit_vec }
    }

    fn try_collect_from_iter<I: Iterator<Item = TResult<T>>>(iter: I) -> TResult<Self> {
        let (items, _) = interrogate(iter, false, true);
        let mut out = Vec::with_capacity(items.len());
        for v in items {
            out.push(v?);
        }
        Ok(SimVec::from_vec(out))
    }

    fn collect_from_trusted<I: TrustedLen<Item = T>>(iter: I) -> Self {
        let (items, _) = interrogate(iter, true, false);
        SimVec::from_vec(items)
    }

    fn try_collect_from_trusted<I: TrustedLen<Item = TResult<T>>>(iter: I) -> TResult<Self>
    where
        T: std::fmt::Debug,
    {
        let (items, _) = interrogate(iter, true, true);
        let mut out = Vec::with_capacity(items.len());
        for v in items {
            out.push(v?);
        }
        Ok(SimVec::from_vec(out))
    }
}

pub struct SimUninit<T> {
    pub slots: Vec<Option<T>>,
    pub log: Vec<usize>,
    pub oob: Vec<usize>,
    pub twice: Vec<usize>,
}

impl<T> SimUninit<T> {
    pub fn new(len: usize) -> SimUninit<T> {
        SimUninit { slots: (0..len).map(|_| None).collect(), log: vec![], oob: vec![], twice: vec![] }
    }
    fn record(&mut self, idx: usize, v: T) {
        self.log.push(idx);
        if idx >= self.slots.len() {
            self.oob.push(idx);
            return;
        }
        if self.slots[idx].is_some() {
            self.twice.push(idx);
        }
        self.slots[idx] = Some(v);
    }
}

impl<T> GetLen for SimUninit<T> {
    fn len(&self) -> usize {
        self.slots.len()
    }
}

impl<T: Clone + Obsable> UninitVec<T> for SimUninit<T> {
    type Vec = SimVec<T>;

    unsafe fn assume_init(self) -> SimVec<T> {
        let mut holes = vec![];
        let mut items = vec![];
        for (i, s) in self.slots.into_iter().enumerate() {
            match s {
                Some(v) => items.push(v),
                None => holes.push(i),
            }
        }
        SimVec { items, holes, uset_log: self.log, uset_oob: self.oob, uset_twice: self.twice }
    }

    unsafe fn uset(&mut self, idx: usize, v: T) {
        self.record(idx, v)
    }
}

pub struct SimBuf<'a, T> {
    pub u: &'a mut SimUninit<T>,
}

impl<T> GetLen for SimBuf<'_, T> {
    fn len(&self) -> usize {
        self.u.slots.len()
    }
}

impl<T> UninitRefMut<T> for SimBuf<'_, T> {
    unsafe fn uset(&mut self, idx: usize, v: T) {
        self.u.record(idx, v)
    }
}

// ---------------------------------------------------------------------------------------
// A second simulator-owned container that implements only the *required* items of the
// library's Vec1 trait and inherits every default (collect_from_trusted, try_collect_*,
// collect_with_len, collect_from_opt_iter, empty, full): the defaults are library code that
// none of the built-in back ends reaches for collect_from_trusted / try_collect_from_trusted.

#[derive(Debug, Clone)]
pub struct PlainVec<T> {
    pub items: Vec<T>,
}

impl<T> GetLen for PlainVec<T> {
    fn len(&self) -> usize {
        self.items.len()
    }
}

impl<T: Clone> TIter<T> for PlainVec<T> {
    fn titer(&self) -> impl TIterator<Item = T> + '_ {
        self.items.iter().cloned()
    }
}

impl<T: Clone> Vec1View<T> for PlainVec<T> {
    type SliceOutput<'a>
        = &'a [T]
    where
        Self: 'a;

    fn slice<'a>(&'a self, start: usize, end: usize) -> TResult<&'a [T]>
    where
        T: 'a,
    {
        Ok(&self.items[start..end])
    }

    fn get_backend_name(&self) -> &'static str {
        "plainvec"
    }

    unsafe fn uget(&self, index: usize) -> T {
        self.items[index].clone()
    }
}

pub struct PlainUninit<T>(pub SimUninit<T>);

impl<T> GetLen for PlainUninit<T> {
    fn len(&self) -> usize {
        self.0.slots.len()
    }
}

impl<T: Clone + Obsable> UninitVec<T> for PlainUninit<T> {
    type Vec = PlainVec<T>;

    unsafe fn assume_init(self) -> PlainVec<T> {
        PlainVec { items: self.0.slots.into_iter().flatten().collect() }
    }
    // `uset` is deliberately NOT provided: like the Polars back end, this container keeps the
    // trait's default (`unimplemented!`), i.e. it cannot be written by position through the
    // owned buffer - only through `uninit_ref_mut`.
}

impl<T: Clone + Obsable> Vec1<T> for PlainVec<T> {
    type Uninit = PlainUninit<T>;
    type UninitRefMut<'a>
        = NoSetBuf<'a, T>
    where
        T: 'a;

    fn collect_from_iter<I: Iterator<Item = T>>(iter: I) -> Self {
        // plain safe iteration; the size hint is not looked at
        let mut items = Vec::new();
        for v in iter {
            items.push(v);
            if items.len() > DRAIN_LIMIT + 16 {
                break;
            }
        }
        PlainVec { items }
    }

    fn uninit(len: usize) -> PlainUninit<T> {
        PlainUninit(SimUninit::new(len))
    }

    fn uninit_ref_mut(uninit_vec: &mut PlainUninit<T>) -> NoSetBuf<'_, T> {
        NoSetBuf { u: &mut uninit_vec.0 }
    }
}

/// like the Polars back end, this container cannot be written by position
pub struct NoSetBuf<'a, T> {
    pub u: &'a mut SimUninit<T>,
}

impl<T> GetLen for NoSetBuf<'_, T> {
    fn len(&self) -> usize {
        self.u.slots.len()
    }
}

impl<T> UninitRefMut<T> for NoSetBuf<'_, T> {
    unsafe fn uset(&mut self, _idx: usize, _v: T) {
        unimplemented!("plainvec does not support set in given index")
    }
}
