//! Run-time typed streams: the object the simulated consumer holds between steps.

use std::cell::{Cell, RefCell};

use tea_core::prelude::*;

use crate::elem::{Obs, Obsable, Tracked};

// ---------------------------------------------------------------------------------------
// arena: owns every container a run builds, so that lazily built pipelines can borrow from
// containers created while the run proceeds. Items are freed in reverse allocation order
// when the arena is dropped, which must happen after every stream borrowing from it is gone.

pub struct Arena {
    items: RefCell<Vec<(*mut u8, unsafe fn(*mut u8))>>,
}

unsafe fn drop_box<T>(p: *mut u8) {
    unsafe { drop(Box::from_raw(p as *mut T)) }
}

impl Arena {
    pub fn new() -> Arena {
        Arena { items: RefCell::new(Vec::new()) }
    }
    pub fn alloc<'a, T: 'a>(&'a self, v: T) -> &'a T {
        let p = Box::into_raw(Box::new(v));
        self.items.borrow_mut().push((p as *mut u8, drop_box::<T>));
        unsafe { &*p }
    }
    /// the only reference to the new item is the one returned
    #[allow(clippy::mut_from_ref)]
    pub fn alloc_mut<'a, T: 'a>(&'a self, v: T) -> &'a mut T {
        let p = Box::into_raw(Box::new(v));
        self.items.borrow_mut().push((p as *mut u8, drop_box::<T>));
        unsafe { &mut *p }
    }
}

impl Drop for Arena {
    fn drop(&mut self) {
        let mut items = self.items.borrow_mut();
        while let Some((p, f)) = items.pop() {
            unsafe { f(p) }
        }
    }
}

// ---------------------------------------------------------------------------------------
// double-ended trusted streams behind one pointer

pub trait DynDe: TrustedLen + DoubleEndedIterator {}
impl<I: TrustedLen + DoubleEndedIterator> DynDe for I {}

/// Forwards every call to the boxed library iterator; adds nothing of its own.
pub struct DeBox<'a, T>(pub Box<dyn DynDe<Item = T> + 'a>);

impl<T> Iterator for DeBox<'_, T> {
    type Item = T;
    #[inline]
    fn next(&mut self) -> Option<T> {
        self.0.next()
    }
    #[inline]
    fn size_hint(&self) -> (usize, Option<usize>) {
        self.0.size_hint()
    }
    #[inline]
    fn nth(&mut self, n: usize) -> Option<T> {
        self.0.nth(n)
    }
}
impl<T> DoubleEndedIterator for DeBox<'_, T> {
    #[inline]
    fn next_back(&mut self) -> Option<T> {
        self.0.next_back()
    }
    #[inline]
    fn nth_back(&mut self, n: usize) -> Option<T> {
        self.0.nth_back(n)
    }
}
// SAFETY (of the harness): pure forwarding; the hint is exactly the wrapped library iterator's.
unsafe impl<T> TrustedLen for DeBox<'_, T> {
    #[inline]
    fn len(&self) -> usize {
        TrustedLen::len(&*self.0)
    }
    #[inline]
    fn is_empty(&self) -> bool {
        TrustedLen::is_empty(&*self.0)
    }
}

pub type FwBox<'a, T> = Box<dyn TrustedLen<Item = T> + 'a>;

pub type PlBox<'a, T> = Box<dyn Iterator<Item = T> + 'a>;

pub enum S<'a, T> {
    De(DeBox<'a, T>),
    Fw(FwBox<'a, T>),
    /// honest but untrusted iterator (loose size hint); only the plain collectors take it
    Pl(PlBox<'a, T>),
}

impl<'a, T: 'a> S<'a, T> {
    pub fn de<I: TrustedLen<Item = T> + DoubleEndedIterator + 'a>(i: I) -> S<'a, T> {
        S::De(DeBox(Box::new(i)))
    }
    pub fn fw<I: TrustedLen<Item = T> + 'a>(i: I) -> S<'a, T> {
        S::Fw(Box::new(i))
    }
    pub fn is_de(&self) -> bool {
        matches!(self, S::De(_))
    }
    pub fn is_plain(&self) -> bool {
        matches!(self, S::Pl(_))
    }
    pub fn into_fw(self) -> FwBox<'a, T> {
        match self {
            S::De(d) => Box::new(d),
            S::Fw(f) => f,
            S::Pl(_) => panic!("HARNESS: an untrusted stream was used where a trusted one is required"),
        }
    }
    pub fn into_plain(self) -> PlBox<'a, T> {
        match self {
            S::De(d) => Box::new(d),
            S::Fw(f) => Box::new(f),
            S::Pl(p) => p,
        }
    }
    pub fn next(&mut self) -> Option<T> {
        match self {
            S::De(d) => d.next(),
            S::Fw(f) => f.next(),
            S::Pl(p) => p.next(),
        }
    }
    pub fn next_back(&mut self) -> Option<T> {
        match self {
            S::De(d) => d.next_back(),
            _ => panic!("HARNESS: next_back on a forward-only stream"),
        }
    }
    pub fn nth(&mut self, n: usize) -> Option<T> {
        match self {
            S::De(d) => d.nth(n),
            S::Fw(f) => f.nth(n),
            S::Pl(p) => p.nth(n),
        }
    }
    pub fn size_hint(&self) -> (usize, Option<usize>) {
        match self {
            S::De(d) => d.size_hint(),
            S::Fw(f) => f.size_hint(),
            S::Pl(p) => p.size_hint(),
        }
    }
    /// the library's own accessor `TrustedLen::len()` (None for untrusted streams and when
    /// there is no upper bound, where it would panic)
    pub fn tl_len(&self) -> Option<usize> {
        self.size_hint().1?;
        match self {
            S::De(d) => Some(TrustedLen::len(d)),
            S::Fw(f) => Some(TrustedLen::len(f)),
            S::Pl(_) => None,
        }
    }
    pub fn nth_back(&mut self, n: usize) -> Option<T> {
        match self {
            S::De(d) => d.nth_back(n),
            _ => panic!("HARNESS: nth_back on a forward-only stream"),
        }
    }
    pub fn count(self) -> usize {
        match self {
            S::De(d) => Iterator::count(d),
            S::Fw(f) => Iterator::count(f),
            S::Pl(p) => Iterator::count(p),
        }
    }
    pub fn last(self) -> Option<T> {
        match self {
            S::De(d) => Iterator::last(d),
            S::Fw(f) => Iterator::last(f),
            S::Pl(p) => Iterator::last(p),
        }
    }
    pub fn for_each(self, g: impl FnMut(T)) {
        match self {
            S::De(d) => d.for_each(g),
            S::Fw(f) => f.for_each(g),
            S::Pl(p) => p.for_each(g),
        }
    }
}

pub enum Stream<'a> {
    F64(S<'a, f64>),
    I32(S<'a, i32>),
    OF64(S<'a, Option<f64>>),
    OI32(S<'a, Option<i32>>),
    Trk(S<'a, Tracked>),
    RF64(S<'a, TResult<f64>>),
    RI32(S<'a, TResult<i32>>),
    ROF64(S<'a, TResult<Option<f64>>>),
    ROI32(S<'a, TResult<Option<i32>>>),
    RTrk(S<'a, TResult<Tracked>>),
}

#[macro_export]
macro_rules! with_stream {
    ($s:expr, $b:ident => $e:expr) => {
        match $s {
            $crate::stream::Stream::F64($b) => $e,
            $crate::stream::Stream::I32($b) => $e,
            $crate::stream::Stream::OF64($b) => $e,
            $crate::stream::Stream::OI32($b) => $e,
            $crate::stream::Stream::Trk($b) => $e,
            $crate::stream::Stream::RF64($b) => $e,
            $crate::stream::Stream::RI32($b) => $e,
            $crate::stream::Stream::ROF64($b) => $e,
            $crate::stream::Stream::ROI32($b) => $e,
            $crate::stream::Stream::RTrk($b) => $e,
        }
    };
}

impl<'a> Stream<'a> {
    pub fn is_de(&self) -> bool {
        with_stream!(self, s => s.is_de())
    }
    pub fn is_plain(&self) -> bool {
        with_stream!(self, s => s.is_plain())
    }
    pub fn is_res(&self) -> bool {
        matches!(
            self,
            Stream::RF64(_) | Stream::RI32(_) | Stream::ROF64(_) | Stream::ROI32(_) | Stream::RTrk(_)
        )
    }
    pub fn is_float(&self) -> bool {
        matches!(self, Stream::F64(_) | Stream::OF64(_) | Stream::RF64(_) | Stream::ROF64(_))
    }
    pub fn size_hint(&self) -> (usize, Option<usize>) {
        with_stream!(self, s => s.size_hint())
    }
    pub fn tl_len(&self) -> Option<usize> {
        with_stream!(self, s => s.tl_len())
    }
    pub fn nth_back_obs(&mut self, n: usize) -> Option<Obs> {
        with_stream!(self, s => s.nth_back(n).map(|v| v.obs()))
    }
    pub fn count(self) -> usize {
        with_stream!(self, s => s.count())
    }
    pub fn last_obs(self) -> Option<Obs> {
        with_stream!(self, s => s.last().map(|v| v.obs()))
    }
    pub fn for_each_obs(self) -> Vec<Obs> {
        let mut out = Vec::new();
        with_stream!(self, s => s.for_each(|v| {
            if out.len() <= crate::simvec::DRAIN_LIMIT + 16 {
                out.push(v.obs())
            }
        }));
        out
    }
    pub fn next_obs(&mut self) -> Option<Obs> {
        with_stream!(self, s => s.next().map(|v| v.obs()))
    }
    pub fn next_back_obs(&mut self) -> Option<Obs> {
        with_stream!(self, s => s.next_back().map(|v| v.obs()))
    }
    pub fn nth_obs(&mut self, n: usize) -> Option<Obs> {
        with_stream!(self, s => s.nth(n).map(|v| v.obs()))
    }
    /// plain safe iteration of what is left, at most `cap` items
    pub fn drain(&mut self, cap: usize) -> (Vec<Obs>, bool) {
        let mut out = Vec::new();
        loop {
            if out.len() >= cap {
                return (out, true);
            }
            match self.next_obs() {
                Some(o) => out.push(o),
                None => return (out, false),
            }
        }
    }
}

impl<'a> Stream<'a> {
    /// plain safe iteration from the back of what is left, at most `cap` items
    pub fn drain_back(&mut self, cap: usize) -> (Vec<Obs>, bool) {
        let mut out = Vec::new();
        loop {
            if out.len() >= cap {
                return (out, true);
            }
            match self.next_back_obs() {
                Some(o) => out.push(o),
                None => return (out, false),
            }
        }
    }
}

// ---------------------------------------------------------------------------------------
// the simulator-owned source (stub): an honest double-ended trusted-length stream over a script

thread_local! {
    pub static SIM_PULLS: Cell<u64> = const { Cell::new(0) };
}

#[derive(Clone)]
pub struct SimSource<I> {
    items: Vec<Option<I>>,
    front: usize,
    back: usize,
}

impl<I> SimSource<I> {
    pub fn new(items: Vec<I>) -> SimSource<I> {
        let n = items.len();
        SimSource { items: items.into_iter().map(Some).collect(), front: 0, back: n }
    }
}

impl<I> Iterator for SimSource<I> {
    type Item = I;
    fn next(&mut self) -> Option<I> {
        if self.front >= self.back {
            return None;
        }
        let v = self.items[self.front].take();
        self.front += 1;
        SIM_PULLS.with(|c| c.set(c.get() + 1));
        v
    }
    fn size_hint(&self) -> (usize, Option<usize>) {
        let n = self.back - self.front;
        (n, Some(n))
    }
}
impl<I> DoubleEndedIterator for SimSource<I> {
    fn next_back(&mut self) -> Option<I> {
        if self.front >= self.back {
            return None;
        }
        self.back -= 1;
        SIM_PULLS.with(|c| c.set(c.get() + 1));
        self.items[self.back].take()
    }
}
// SAFETY (of the harness): size_hint is exact by construction.
unsafe impl<I> TrustedLen for SimSource<I> {}
