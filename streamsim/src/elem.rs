//! Element types, observations and the drop-tracked item type.

use std::cell::RefCell;
use std::collections::BTreeSet;

use tea_core::prelude::{Cast, IsNone, TResult};

use crate::json::J;
use crate::program::{Ty, Val};

/// What the simulator records about one item it saw.
#[derive(Clone, Debug, PartialEq)]
pub enum Obs {
    /// raw bits of a number (f64 bits / sign-extended integer)
    B(u64),
    /// `None`
    N,
    /// an `Err` item, by its message
    E(String),
    /// tracked item: (origin id, instance id); equality ignores the instance
    T(i64, u64),
}

impl Obs {
    pub fn same(&self, other: &Obs) -> bool {
        match (self, other) {
            (Obs::T(a, _), Obs::T(b, _)) => a == b,
            _ => self == other,
        }
    }
    pub fn is_err(&self) -> bool {
        matches!(self, Obs::E(_))
    }
    pub fn to_j(&self, float: bool) -> J {
        match self {
            Obs::B(b) => {
                if float {
                    Val::F(f64::from_bits(*b)).to_j()
                } else {
                    J::Int(*b as i64)
                }
            },
            Obs::N => J::Null,
            Obs::E(m) => J::obj(vec![("err", J::s(m))]),
            Obs::T(o, i) => J::obj(vec![("origin", J::Int(*o)), ("inst", J::Int(*i as i64))]),
        }
    }
}

pub fn obs_seq_same(a: &[Obs], b: &[Obs]) -> bool {
    a.len() == b.len() && a.iter().zip(b).all(|(x, y)| x.same(y))
}

pub trait Obsable {
    fn obs(&self) -> Obs;
}

impl Obsable for f64 {
    fn obs(&self) -> Obs {
        Obs::B(self.to_bits())
    }
}
impl Obsable for f32 {
    fn obs(&self) -> Obs {
        Obs::B((*self as f64).to_bits())
    }
}
impl Obsable for i32 {
    fn obs(&self) -> Obs {
        Obs::B(*self as i64 as u64)
    }
}
impl Obsable for i64 {
    fn obs(&self) -> Obs {
        Obs::B(*self as u64)
    }
}
impl Obsable for usize {
    fn obs(&self) -> Obs {
        Obs::B(*self as u64)
    }
}
impl<T: Obsable> Obsable for Option<T> {
    fn obs(&self) -> Obs {
        match self {
            None => Obs::N,
            Some(x) => x.obs(),
        }
    }
}
impl<T: Obsable> Obsable for TResult<T> {
    fn obs(&self) -> Obs {
        match self {
            Ok(x) => x.obs(),
            Err(e) => Obs::E(e.to_string()),
        }
    }
}
impl Obsable for String {
    fn obs(&self) -> Obs {
        // strings are only observed by the simulator-owned containers' logs; a hash is enough
        let mut h = 0xcbf2_9ce4_8422_2325u64;
        for b in self.bytes() {
            h ^= b as u64;
            h = h.wrapping_mul(0x0000_0100_0000_01B3);
        }
        Obs::B(h)
    }
}
impl Obsable for Tracked {
    fn obs(&self) -> Obs {
        Obs::T(self.origin, self.inst)
    }
}

/// Element types the pipelines are instantiated for.
pub trait Elem: Clone + Obsable + 'static {
    const TY: Ty;
    fn from_val(v: &Val) -> Self;
    /// a value no program datum can equal; used to pre-fill caller buffers
    fn sentinel() -> Self;
}

pub const F64_SENTINEL_BITS: u64 = 0x7ff8_dead_beef_0001;
pub const I32_SENTINEL: i32 = i32::MIN + 12345;

impl Elem for f64 {
    const TY: Ty = Ty::F64;
    fn from_val(v: &Val) -> f64 {
        v.as_f64()
    }
    fn sentinel() -> f64 {
        f64::from_bits(F64_SENTINEL_BITS)
    }
}
impl Elem for i32 {
    const TY: Ty = Ty::I32;
    fn from_val(v: &Val) -> i32 {
        v.as_i32()
    }
    fn sentinel() -> i32 {
        I32_SENTINEL
    }
}
impl Elem for Option<f64> {
    const TY: Ty = Ty::OptF64;
    fn from_val(v: &Val) -> Option<f64> {
        if v.is_null() { None } else { Some(v.as_f64()) }
    }
    fn sentinel() -> Option<f64> {
        Some(f64::from_bits(F64_SENTINEL_BITS))
    }
}
impl Elem for Option<i32> {
    const TY: Ty = Ty::OptI32;
    fn from_val(v: &Val) -> Option<i32> {
        if v.is_null() { None } else { Some(v.as_i32()) }
    }
    fn sentinel() -> Option<i32> {
        Some(I32_SENTINEL)
    }
}
impl Elem for Tracked {
    const TY: Ty = Ty::Trk;
    fn from_val(v: &Val) -> Tracked {
        Tracked::new(match v {
            Val::I(i) => *i,
            Val::F(f) => *f as i64,
            Val::Null => -1,
        })
    }
    fn sentinel() -> Tracked {
        Tracked::new(-999)
    }
}

// ---------------------------------------------------------------------------------------
// drop-tracked items

#[derive(Default)]
pub struct TrkReg {
    next: u64,
    live: BTreeSet<u64>,
    pub created: u64,
    pub dropped: u64,
    pub double_drops: Vec<u64>,
}

thread_local! {
    static TRK: RefCell<TrkReg> = RefCell::new(TrkReg::default());
}

pub fn trk_reset() {
    TRK.with(|t| *t.borrow_mut() = TrkReg::default());
}
pub fn trk_double_drops() -> Vec<u64> {
    TRK.with(|t| t.borrow().double_drops.clone())
}
pub fn trk_is_live(inst: u64) -> bool {
    TRK.with(|t| t.borrow().live.contains(&inst))
}
/// (created, dropped, live)
pub fn trk_counts() -> (u64, u64, u64) {
    TRK.with(|t| {
        let t = t.borrow();
        (t.created, t.dropped, t.live.len() as u64)
    })
}

/// An item with identity: every construction / clone registers a fresh instance id,
/// every drop unregisters it; dropping an unregistered id is recorded, never panics.
#[derive(Debug)]
pub struct Tracked {
    pub origin: i64,
    pub inst: u64,
}

impl Tracked {
    pub fn new(origin: i64) -> Tracked {
        let inst = TRK.with(|t| {
            let mut t = t.borrow_mut();
            t.next += 1;
            t.created += 1;
            let id = t.next;
            t.live.insert(id);
            id
        });
        Tracked { origin, inst }
    }
}

impl Clone for Tracked {
    fn clone(&self) -> Tracked {
        Tracked::new(self.origin)
    }
}

impl Drop for Tracked {
    fn drop(&mut self) {
        let inst = self.inst;
        let _ = TRK.try_with(|t| {
            if let Ok(mut t) = t.try_borrow_mut() {
                t.dropped += 1;
                if !t.live.remove(&inst) {
                    t.double_drops.push(inst);
                }
            }
        });
    }
}

// Tracked items as a *nullable* element type (null = origin -1), so that drop-tracked,
// non-Copy values can flow through the library's null-aware adaptors (vshift, ffill, bfill,
// fill): modelled on the library's own `impl IsNone for String`.
impl IsNone for Tracked {
    type Inner = Tracked;
    type Cast<U: IsNone<Inner = U> + Clone> = U;

    fn is_none(&self) -> bool {
        self.origin == -1
    }

    fn none() -> Self {
        Tracked::new(-1)
    }

    fn to_opt(self) -> Option<Tracked> {
        if self.is_none() { None } else { Some(self) }
    }

    fn as_opt(&self) -> Option<&Tracked> {
        if self.is_none() { None } else { Some(self) }
    }

    fn from_inner(inner: Tracked) -> Self {
        inner
    }

    fn inner_cast<U: IsNone<Inner = U> + Clone>(inner: U) -> Self::Cast<U>
    where
        Self::Inner: Cast<U::Inner>,
    {
        Cast::<U>::cast(inner)
    }

    fn unwrap(self) -> Tracked {
        self
    }

    fn map<F, U: IsNone>(self, f: F) -> U
    where
        F: Fn(Self::Inner) -> U::Inner,
    {
        U::from_inner(f(self))
    }
}
