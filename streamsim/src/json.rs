//! Minimal JSON value, writer and parser (no third-party crates: replay files must mean
//! the same thing forever). Objects keep insertion order.

#[derive(Clone, Debug, PartialEq)]
pub enum J {
    Null,
    Bool(bool),
    Int(i64),
    Float(f64),
    Str(String),
    Arr(Vec<J>),
    Obj(Vec<(String, J)>),
}

impl J {
    pub fn obj(pairs: Vec<(&str, J)>) -> J {
        J::Obj(pairs.into_iter().map(|(k, v)| (k.to_string(), v)).collect())
    }
    pub fn s(x: &str) -> J {
        J::Str(x.to_string())
    }
    pub fn get(&self, k: &str) -> Option<&J> {
        match self {
            J::Obj(v) => v.iter().find(|(kk, _)| kk == k).map(|(_, v)| v),
            _ => None,
        }
    }
    pub fn req(&self, k: &str) -> Result<&J, String> {
        self.get(k).ok_or_else(|| format!("missing key {k}"))
    }
    pub fn as_i64(&self) -> Result<i64, String> {
        match self {
            J::Int(i) => Ok(*i),
            J::Float(f) if f.fract() == 0.0 => Ok(*f as i64),
            _ => Err(format!("expected int, got {self:?}")),
        }
    }
    pub fn as_usize(&self) -> Result<usize, String> {
        let i = self.as_i64()?;
        if i < 0 { Err("negative".into()) } else { Ok(i as usize) }
    }
    pub fn as_bool(&self) -> Result<bool, String> {
        match self {
            J::Bool(b) => Ok(*b),
            _ => Err(format!("expected bool, got {self:?}")),
        }
    }
    pub fn as_str(&self) -> Result<&str, String> {
        match self {
            J::Str(s) => Ok(s),
            _ => Err(format!("expected string, got {self:?}")),
        }
    }
    pub fn as_arr(&self) -> Result<&[J], String> {
        match self {
            J::Arr(a) => Ok(a),
            _ => Err(format!("expected array, got {self:?}")),
        }
    }

    pub fn write(&self, out: &mut String) {
        match self {
            J::Null => out.push_str("null"),
            J::Bool(b) => out.push_str(if *b { "true" } else { "false" }),
            J::Int(i) => out.push_str(&i.to_string()),
            J::Float(f) => {
                if f.is_finite() {
                    let s = format!("{f:?}");
                    out.push_str(&s);
                } else {
                    // JSON has no non-finite numbers; callers encode those as strings.
                    out.push_str("null");
                }
            },
            J::Str(s) => {
                out.push('"');
                for c in s.chars() {
                    match c {
                        '"' => out.push_str("\\\""),
                        '\\' => out.push_str("\\\\"),
                        '\n' => out.push_str("\\n"),
                        '\r' => out.push_str("\\r"),
                        '\t' => out.push_str("\\t"),
                        c if (c as u32) < 0x20 => out.push_str(&format!("\\u{:04x}", c as u32)),
                        c => out.push(c),
                    }
                }
                out.push('"');
            },
            J::Arr(a) => {
                out.push('[');
                for (i, v) in a.iter().enumerate() {
                    if i > 0 {
                        out.push(',');
                    }
                    v.write(out);
                }
                out.push(']');
            },
            J::Obj(o) => {
                out.push('{');
                for (i, (k, v)) in o.iter().enumerate() {
                    if i > 0 {
                        out.push(',');
                    }
                    J::Str(k.clone()).write(out);
                    out.push(':');
                    v.write(out);
                }
                out.push('}');
            },
        }
    }

    pub fn to_string(&self) -> String {
        let mut s = String::new();
        self.write(&mut s);
        s
    }

    /// two-space indented form for files meant to be read by people
    pub fn pretty(&self) -> String {
        let mut s = String::new();
        self.pretty_into(&mut s, 0);
        s.push('\n');
        s
    }

    fn pretty_into(&self, out: &mut String, ind: usize) {
        let flat = self.to_string();
        if flat.len() <= 100 {
            out.push_str(&flat);
            return;
        }
        match self {
            J::Arr(a) => {
                out.push_str("[\n");
                for (i, v) in a.iter().enumerate() {
                    out.push_str(&" ".repeat(ind + 2));
                    v.pretty_into(out, ind + 2);
                    if i + 1 < a.len() {
                        out.push(',');
                    }
                    out.push('\n');
                }
                out.push_str(&" ".repeat(ind));
                out.push(']');
            },
            J::Obj(o) => {
                out.push_str("{\n");
                for (i, (k, v)) in o.iter().enumerate() {
                    out.push_str(&" ".repeat(ind + 2));
                    J::Str(k.clone()).write(out);
                    out.push_str(": ");
                    v.pretty_into(out, ind + 2);
                    if i + 1 < o.len() {
                        out.push(',');
                    }
                    out.push('\n');
                }
                out.push_str(&" ".repeat(ind));
                out.push('}');
            },
            _ => out.push_str(&flat),
        }
    }

    pub fn parse(src: &str) -> Result<J, String> {
        let b = src.as_bytes();
        let mut p = 0usize;
        let v = parse_val(b, &mut p)?;
        skip_ws(b, &mut p);
        if p != b.len() {
            return Err(format!("trailing data at {p}"));
        }
        Ok(v)
    }
}

fn skip_ws(b: &[u8], p: &mut usize) {
    while *p < b.len() && matches!(b[*p], b' ' | b'\n' | b'\r' | b'\t') {
        *p += 1;
    }
}

fn parse_val(b: &[u8], p: &mut usize) -> Result<J, String> {
    skip_ws(b, p);
    if *p >= b.len() {
        return Err("unexpected end".into());
    }
    match b[*p] {
        b'n' => lit(b, p, "null", J::Null),
        b't' => lit(b, p, "true", J::Bool(true)),
        b'f' => lit(b, p, "false", J::Bool(false)),
        b'"' => Ok(J::Str(parse_str(b, p)?)),
        b'[' => {
            *p += 1;
            let mut a = Vec::new();
            skip_ws(b, p);
            if *p < b.len() && b[*p] == b']' {
                *p += 1;
                return Ok(J::Arr(a));
            }
            loop {
                a.push(parse_val(b, p)?);
                skip_ws(b, p);
                if *p >= b.len() {
                    return Err("unterminated array".into());
                }
                match b[*p] {
                    b',' => *p += 1,
                    b']' => {
                        *p += 1;
                        return Ok(J::Arr(a));
                    },
                    c => return Err(format!("unexpected {:?} in array at {}", c as char, *p)),
                }
            }
        },
        b'{' => {
            *p += 1;
            let mut o = Vec::new();
            skip_ws(b, p);
            if *p < b.len() && b[*p] == b'}' {
                *p += 1;
                return Ok(J::Obj(o));
            }
            loop {
                skip_ws(b, p);
                let k = parse_str(b, p)?;
                skip_ws(b, p);
                if *p >= b.len() || b[*p] != b':' {
                    return Err(format!("expected ':' at {}", *p));
                }
                *p += 1;
                let v = parse_val(b, p)?;
                o.push((k, v));
                skip_ws(b, p);
                if *p >= b.len() {
                    return Err("unterminated object".into());
                }
                match b[*p] {
                    b',' => *p += 1,
                    b'}' => {
                        *p += 1;
                        return Ok(J::Obj(o));
                    },
                    c => return Err(format!("unexpected {:?} in object at {}", c as char, *p)),
                }
            }
        },
        _ => {
            let start = *p;
            let mut is_float = false;
            while *p < b.len()
                && matches!(b[*p], b'0'..=b'9' | b'-' | b'+' | b'.' | b'e' | b'E')
            {
                if matches!(b[*p], b'.' | b'e' | b'E') {
                    is_float = true;
                }
                *p += 1;
            }
            let s = std::str::from_utf8(&b[start..*p]).map_err(|e| e.to_string())?;
            if s.is_empty() {
                return Err(format!("unexpected {:?} at {}", b[start] as char, start));
            }
            if is_float {
                s.parse::<f64>().map(J::Float).map_err(|e| format!("{e}: {s}"))
            } else {
                s.parse::<i64>().map(J::Int).map_err(|e| format!("{e}: {s}"))
            }
        },
    }
}

fn lit(b: &[u8], p: &mut usize, word: &str, v: J) -> Result<J, String> {
    if b[*p..].starts_with(word.as_bytes()) {
        *p += word.len();
        Ok(v)
    } else {
        Err(format!("bad literal at {}", *p))
    }
}

fn parse_str(b: &[u8], p: &mut usize) -> Result<String, String> {
    if *p >= b.len() || b[*p] != b'"' {
        return Err(format!("expected string at {}", *p));
    }
    *p += 1;
    let mut out = Vec::new();
    while *p < b.len() {
        match b[*p] {
            b'"' => {
                *p += 1;
                return String::from_utf8(out).map_err(|e| e.to_string());
            },
            b'\\' => {
                *p += 1;
                if *p >= b.len() {
                    break;
                }
                match b[*p] {
                    b'n' => out.push(b'\n'),
                    b'r' => out.push(b'\r'),
                    b't' => out.push(b'\t'),
                    b'u' => {
                        let h = std::str::from_utf8(&b[*p + 1..*p + 5]).map_err(|e| e.to_string())?;
                        let cp = u32::from_str_radix(h, 16).map_err(|e| e.to_string())?;
                        let ch = char::from_u32(cp).unwrap_or('?');
                        let mut buf = [0u8; 4];
                        out.extend_from_slice(ch.encode_utf8(&mut buf).as_bytes());
                        *p += 4;
                    },
                    c => out.push(c),
                }
                *p += 1;
            },
            c => {
                out.push(c);
                *p += 1;
            },
        }
    }
    Err("unterminated string".into())
}
