//! Statically typed scenarios. The dynamic pipelines box every stream as `dyn TrustedLen`,
//! and through a `dyn` pointer the *generic* iterator methods (`fold`, `try_fold`, `for_each`,
//! `count`, ...) always fall back to `next()`. The library's concrete hand-outs -
//! `to_trust(len)` (TrustIter), `rolling_custom_iter` (`impl TrustedLen`), `titer()`,
//! `vabs()/ffill()` (`impl TrustedLen`) - are consumed by callers with static dispatch, where
//! an override of such a method is what really runs. Here the consumer holds the concrete
//! type and consumes it through those methods; after every step the size hint and
//! `TrustedLen::len()` are compared with what plain `next()` iteration then yields.

use std::collections::VecDeque;

use tea_core::export::ndarray::Array1;
use tea_core::prelude::*;
use tevec::map::MapValidBasic;

use crate::check::{RunStats, Violation, fnv};
use crate::exec::{HARNESS, guarded};
use crate::json::J;
use crate::rng::Rng;
use crate::stream::SimSource;

#[derive(Clone, Debug, PartialEq)]
pub enum TOp {
    Next,
    NextBack,
    Nth(usize),
    NthBack(usize),
    /// `it.by_ref().take(k).count()`
    TakeCount(usize),
    /// `it.by_ref().take(k).fold(..)`
    TakeFold(usize),
    /// `it.by_ref().take(k).for_each(..)`
    TakeForEach(usize),
    /// `it.try_fold(..)` breaking after k items
    TryFoldBreak(usize),
    /// `it.by_ref().skip(k).next()`
    SkipNext(usize),
    /// `it.by_ref().rev().take(k).count()`
    RevTakeCount(usize),
    /// `it.by_ref().take(k).last()`
    TakeLast(usize),
    /// `it.by_ref().step_by(2).take(k).count()`
    StepTake(usize),
    /// `it.find(..)` matching the (k+1)-th item it is shown
    Find(usize),
    /// `it.position(..)` matching the (k+1)-th item
    Position(usize),
    /// `it.any(..)` true at the (k+1)-th item
    AnyAt(usize),
    /// `it.all(..)` false at the (k+1)-th item
    AllUntil(usize),
    /// `it.find_map(..)` matching the (k+1)-th item
    FindMap(usize),
    /// `it.by_ref().fold(..)`: consumes everything that is left
    FoldAll,
    /// `it.by_ref().max_by(..)`: consumes everything that is left
    MaxAll,
    /// `it.by_ref().skip_while(..)` dropping k items, then `next()`
    SkipWhile(usize),
    /// `ckpt = it.clone()`
    Checkpoint,
    /// `it.clone_from(&ckpt)` (rewind to the checkpoint; no-op without one)
    Rewind,
    /// `it = it.clone()` (continue with the clone)
    SwapToClone,
}

impl TOp {
    fn needs_de(&self) -> bool {
        matches!(self, TOp::NextBack | TOp::NthBack(_) | TOp::RevTakeCount(_))
    }
    fn name(&self) -> &'static str {
        match self {
            TOp::Next => "next",
            TOp::NextBack => "next_back",
            TOp::Nth(_) => "nth",
            TOp::NthBack(_) => "nth_back",
            TOp::TakeCount(_) => "take_count",
            TOp::TakeFold(_) => "take_fold",
            TOp::TakeForEach(_) => "take_for_each",
            TOp::TryFoldBreak(_) => "try_fold_break",
            TOp::SkipNext(_) => "skip_next",
            TOp::RevTakeCount(_) => "rev_take_count",
            TOp::TakeLast(_) => "take_last",
            TOp::StepTake(_) => "step_take",
            TOp::Find(_) => "find",
            TOp::Position(_) => "position",
            TOp::AnyAt(_) => "any",
            TOp::AllUntil(_) => "all",
            TOp::FindMap(_) => "find_map",
            TOp::FoldAll => "fold_all",
            TOp::MaxAll => "max_all",
            TOp::SkipWhile(_) => "skip_while",
            TOp::Checkpoint => "checkpoint",
            TOp::Rewind => "rewind",
            TOp::SwapToClone => "swap_to_clone",
        }
    }
    fn k(&self) -> usize {
        match self {
            TOp::Next | TOp::NextBack | TOp::FoldAll | TOp::MaxAll | TOp::Checkpoint | TOp::Rewind | TOp::SwapToClone => 0,
            TOp::Nth(k)
            | TOp::NthBack(k)
            | TOp::TakeCount(k)
            | TOp::TakeFold(k)
            | TOp::TakeForEach(k)
            | TOp::TryFoldBreak(k)
            | TOp::SkipNext(k)
            | TOp::RevTakeCount(k)
            | TOp::TakeLast(k)
            | TOp::StepTake(k)
            | TOp::Find(k)
            | TOp::Position(k)
            | TOp::AnyAt(k)
            | TOp::AllUntil(k)
            | TOp::FindMap(k)
            | TOp::SkipWhile(k) => *k,
        }
    }
    fn make(name: &str, k: usize) -> Result<TOp, String> {
        Ok(match name {
            "next" => TOp::Next,
            "next_back" => TOp::NextBack,
            "nth" => TOp::Nth(k),
            "nth_back" => TOp::NthBack(k),
            "take_count" => TOp::TakeCount(k),
            "take_fold" => TOp::TakeFold(k),
            "take_for_each" => TOp::TakeForEach(k),
            "try_fold_break" => TOp::TryFoldBreak(k),
            "skip_next" => TOp::SkipNext(k),
            "rev_take_count" => TOp::RevTakeCount(k),
            "take_last" => TOp::TakeLast(k),
            "step_take" => TOp::StepTake(k),
            "find" => TOp::Find(k),
            "position" => TOp::Position(k),
            "any" => TOp::AnyAt(k),
            "all" => TOp::AllUntil(k),
            "find_map" => TOp::FindMap(k),
            "fold_all" => TOp::FoldAll,
            "max_all" => TOp::MaxAll,
            "skip_while" => TOp::SkipWhile(k),
            "checkpoint" => TOp::Checkpoint,
            "rewind" => TOp::Rewind,
            "swap_to_clone" => TOp::SwapToClone,
            _ => return Err(format!("bad typed op {name}")),
        })
    }
    pub const NAMES: [&'static str; 23] = [
        "next",
        "next_back",
        "nth",
        "nth_back",
        "take_count",
        "take_fold",
        "take_for_each",
        "try_fold_break",
        "skip_next",
        "rev_take_count",
        "take_last",
        "step_take",
        "find",
        "position",
        "any",
        "all",
        "find_map",
        "fold_all",
        "max_all",
        "skip_while",
        "checkpoint",
        "rewind",
        "swap_to_clone",
    ];
}

#[derive(Clone, Copy, Debug, PartialEq, Eq)]
pub enum TTerm {
    Drain,
    Count,
    Last,
    Fold,
    ForEach,
    CollectTrusted,
    /// `collect_trusted_vec1::<Vec<_>>()` (the generic front end, statically dispatched)
    FrontEndTrustedVec,
    /// `collect_trusted_vec1::<VecDeque<_>>()`
    FrontEndTrustedDeque,
    /// `collect_vec1::<Vec<_>>()`
    FrontEndPlainVec,
}

impl TTerm {
    fn name(self) -> &'static str {
        match self {
            TTerm::Drain => "drain",
            TTerm::Count => "count",
            TTerm::Last => "last",
            TTerm::Fold => "fold",
            TTerm::ForEach => "for_each",
            TTerm::CollectTrusted => "collect_trusted_to_vec",
            TTerm::FrontEndTrustedVec => "collect_trusted_vec1<vec>",
            TTerm::FrontEndTrustedDeque => "collect_trusted_vec1<deque>",
            TTerm::FrontEndPlainVec => "collect_vec1<vec>",
        }
    }
    fn parse(s: &str) -> Result<TTerm, String> {
        Ok(match s {
            "drain" => TTerm::Drain,
            "count" => TTerm::Count,
            "last" => TTerm::Last,
            "fold" => TTerm::Fold,
            "for_each" => TTerm::ForEach,
            "collect_trusted_to_vec" => TTerm::CollectTrusted,
            "collect_trusted_vec1<vec>" => TTerm::FrontEndTrustedVec,
            "collect_trusted_vec1<deque>" => TTerm::FrontEndTrustedDeque,
            "collect_vec1<vec>" => TTerm::FrontEndPlainVec,
            _ => return Err(format!("bad typed terminal {s}")),
        })
    }
    pub const ALL: [TTerm; 9] = [
        TTerm::Drain,
        TTerm::Count,
        TTerm::Last,
        TTerm::Fold,
        TTerm::ForEach,
        TTerm::CollectTrusted,
        TTerm::FrontEndTrustedVec,
        TTerm::FrontEndTrustedDeque,
        TTerm::FrontEndPlainVec,
    ];
}

/// (name, double-ended, cloneable)
pub const ROOTS: [(&str, bool, bool); 20] = [
    ("std_range", true, true),
    ("std_range_inclusive", true, true),
    ("vec_into_iter", true, true),
    ("deque_into_iter", true, true),
    ("unit_items_repeat_n", true, true),
    ("once_chain_vec", true, false),
    ("cloned_iter_to_trust", true, true),
    ("range_to_trust", true, true),
    ("sim_clone_to_trust", true, true),
    ("vec_titer", true, false),
    ("vec_to_trust", true, false),
    ("deque_to_trust", true, false),
    ("array1_to_trust", true, false),
    ("sim_to_trust", true, false),
    ("to_trust_rev", true, false),
    ("to_trust_map", true, false),
    ("opt_titer", true, false),
    ("rolling_custom_iter", false, false),
    ("vabs", false, false),
    ("ffill", false, false),
];

#[derive(Clone, Debug, PartialEq)]
pub struct Typed {
    pub root: String,
    pub len: usize,
    /// window of rolling_custom_iter
    pub param: usize,
    pub script: Vec<TOp>,
    pub terminal: TTerm,
}

impl Typed {
    pub fn to_j(&self) -> J {
        J::obj(vec![
            ("kind", J::s("typed")),
            ("root", J::s(&self.root)),
            ("len", J::Int(self.len as i64)),
            ("param", J::Int(self.param as i64)),
            (
                "script",
                J::Arr(
                    self.script
                        .iter()
                        .map(|o| J::obj(vec![("op", J::s(o.name())), ("k", J::Int(o.k() as i64))]))
                        .collect(),
                ),
            ),
            ("terminal", J::s(self.terminal.name())),
        ])
    }
    pub fn from_j(j: &J) -> Result<Typed, String> {
        Ok(Typed {
            root: j.req("root")?.as_str()?.to_string(),
            len: j.req("len")?.as_usize()?,
            param: j.req("param")?.as_usize()?,
            script: j
                .req("script")?
                .as_arr()?
                .iter()
                .map(|o| TOp::make(o.req("op")?.as_str()?, o.req("k")?.as_usize()?))
                .collect::<Result<_, _>>()?,
            terminal: TTerm::parse(j.req("terminal")?.as_str()?)?,
        })
    }
}

fn data(len: usize) -> Vec<f64> {
    (0..len).map(|i| if i % 4 == 3 { f64::NAN } else { i as f64 + 0.5 }).collect()
}

struct StepOut {
    hint: (usize, Option<usize>),
    tl_len: Option<usize>,
    tl_empty: Option<bool>,
    rest: Vec<u64>,
    capped: bool,
}

macro_rules! apply_ops {
    ($it:ident, $ops:expr, de, $cl:tt) => {
        let mut ckpt = None;
        for op in $ops {
            match op {
                TOp::Checkpoint | TOp::Rewind | TOp::SwapToClone => apply_ops!(@$cl $it, ckpt, op),
                TOp::NextBack => {
                    $it.next_back();
                },
                TOp::NthBack(k) => {
                    $it.nth_back(*k);
                },
                TOp::RevTakeCount(k) => {
                    let _ = Iterator::count($it.by_ref().rev().take(*k));
                },
                other => apply_ops!(@fwd $it, other),
            }
        }
    };
    ($it:ident, $ops:expr, fwd, $cl:tt) => {
        let mut ckpt = None;
        for op in $ops {
            match op {
                TOp::Checkpoint | TOp::Rewind | TOp::SwapToClone => apply_ops!(@$cl $it, ckpt, op),
                TOp::NextBack | TOp::NthBack(_) | TOp::RevTakeCount(_) => {
                    panic!("{} back operation on a forward-only root", HARNESS)
                },
                other => apply_ops!(@fwd $it, other),
            }
        }
    };
    (@cl $it:ident, $ckpt:ident, $op:expr) => {
        match $op {
            TOp::Checkpoint => $ckpt = Some($it.clone()),
            TOp::Rewind => {
                if let Some(c) = &$ckpt {
                    $it.clone_from(c);
                }
            },
            _ => $it = $it.clone(),
        }
    };
    (@nocl $it:ident, $ckpt:ident, $op:expr) => {{
        let _ = &$op;
        if false {
            // fixes the checkpoint's type for roots that cannot be cloned
            $ckpt = Some(());
        }
        panic!("{} clone operation on a root that is not Clone", HARNESS)
    }};
    (@fwd $it:ident, $op:expr) => {
        match $op {
            TOp::Next => {
                $it.next();
            },
            TOp::Nth(k) => {
                $it.nth(*k);
            },
            TOp::TakeCount(k) => {
                let _ = Iterator::count($it.by_ref().take(*k));
            },
            TOp::TakeFold(k) => {
                let _ = $it.by_ref().take(*k).fold(0usize, |a, _| a + 1);
            },
            TOp::TakeForEach(k) => {
                $it.by_ref().take(*k).for_each(|_| ());
            },
            TOp::TryFoldBreak(k) => {
                let mut seen = 0usize;
                let _ = $it.try_fold((), |(), _| {
                    seen += 1;
                    if seen >= (*k).max(1) { Err(()) } else { Ok(()) }
                });
            },
            TOp::SkipNext(k) => {
                $it.by_ref().skip(*k).next();
            },
            TOp::TakeLast(k) => {
                let _ = Iterator::last($it.by_ref().take(*k));
            },
            TOp::StepTake(k) => {
                let _ = Iterator::count($it.by_ref().step_by(2).take(*k));
            },
            TOp::Find(k) => {
                let mut seen = 0usize;
                let _ = $it.find(|_| {
                    seen += 1;
                    seen > *k
                });
            },
            TOp::Position(k) => {
                let mut seen = 0usize;
                let _ = $it.position(|_| {
                    seen += 1;
                    seen > *k
                });
            },
            TOp::AnyAt(k) => {
                let mut seen = 0usize;
                let _ = Iterator::any(&mut $it, |_| {
                    seen += 1;
                    seen > *k
                });
            },
            TOp::AllUntil(k) => {
                let mut seen = 0usize;
                let _ = Iterator::all(&mut $it, |_| {
                    seen += 1;
                    seen <= *k
                });
            },
            TOp::FindMap(k) => {
                let mut seen = 0usize;
                let _ = $it.find_map(|_| {
                    seen += 1;
                    if seen > *k { Some(()) } else { None }
                });
            },
            TOp::FoldAll => {
                let _ = $it.by_ref().fold(0usize, |a, _| a + 1);
            },
            TOp::MaxAll => {
                let _ = Iterator::max_by($it.by_ref(), |_, _| std::cmp::Ordering::Less);
            },
            TOp::SkipWhile(k) => {
                let mut seen = 0usize;
                let _ = $it
                    .by_ref()
                    .skip_while(|_| {
                        seen += 1;
                        seen <= *k
                    })
                    .next();
            },
            _ => unreachable!(),
        }
    };
}

enum TermOut {
    Count(usize),
    Last(Option<u64>),
    Seq(Vec<u64>),
}

macro_rules! run_root {
    ($mk:expr, $t:expr, $de:tt) => {
        run_root!($mk, $t, $de, nocl)
    };
    ($mk:expr, $t:expr, $de:tt, $cl:tt) => {{
        let t: &Typed = $t;
        // probes: after every step, hint vs. what next()-iteration then yields
        let mut steps: Vec<StepOut> = Vec::new();
        for cut in 0..=t.script.len() {
            let mut it = $mk;
            apply_ops!(it, &t.script[..cut], $de, $cl);
            let hint = it.size_hint();
            let tl_len = if hint.1.is_some() { Some(TrustedLen::len(&it)) } else { None };
            let tl_empty = if hint.1.is_some() { Some(TrustedLen::is_empty(&it)) } else { None };
            let cap = hint.1.unwrap_or(4096).min(4096) + 16;
            let mut rest = Vec::new();
            let mut capped = false;
            loop {
                if rest.len() >= cap {
                    capped = true;
                    break;
                }
                match it.next() {
                    Some(v) => rest.push(f64::to_bits(v_bits(&v))),
                    None => break,
                }
            }
            steps.push(StepOut { hint, tl_len, tl_empty, rest, capped });
        }
        let clean = Iterator::all(&mut steps.iter(), |s: &StepOut| {
            // the collector is safe to run whenever the announced length is right; a wrong
            // `is_empty()` is reported on its own and must not hide what the collector does
            !s.capped && s.hint.1 == Some(s.rest.len()) && s.tl_len == Some(s.rest.len())
        });
        // terminal through the iterator's own consuming method, only on a clean history
        let term = if clean && t.terminal != TTerm::Drain {
            let mut it = $mk;
            apply_ops!(it, &t.script[..], $de, $cl);
            Some(match t.terminal {
                TTerm::Count => TermOut::Count(Iterator::count(it)),
                TTerm::Last => TermOut::Last(Iterator::last(it).map(|v| f64::to_bits(v_bits(&v)))),
                TTerm::Fold => TermOut::Seq(it.fold(Vec::new(), |mut a, v| {
                    a.push(f64::to_bits(v_bits(&v)));
                    a
                })),
                TTerm::ForEach => {
                    let mut a = Vec::new();
                    it.for_each(|v| a.push(f64::to_bits(v_bits(&v))));
                    TermOut::Seq(a)
                },
                TTerm::CollectTrusted => {
                    TermOut::Seq(it.collect_trusted_to_vec().iter().map(|v| f64::to_bits(v_bits(v))).collect())
                },
                TTerm::FrontEndTrustedVec => {
                    let c: Vec<_> = it.collect_trusted_vec1();
                    TermOut::Seq(c.iter().map(|v| f64::to_bits(v_bits(v))).collect())
                },
                TTerm::FrontEndTrustedDeque => {
                    let c: VecDeque<_> = it.collect_trusted_vec1();
                    TermOut::Seq(c.iter().map(|v| f64::to_bits(v_bits(v))).collect())
                },
                TTerm::FrontEndPlainVec => {
                    let c: Vec<_> = it.collect_vec1();
                    TermOut::Seq(c.iter().map(|v| f64::to_bits(v_bits(v))).collect())
                },
                TTerm::Drain => unreachable!(),
            })
        } else {
            None
        };
        (steps, term)
    }};
}

/// every root yields something convertible to one f64 (options: None -> NaN)
trait AsF64 {
    fn as_f64(&self) -> f64;
}
impl AsF64 for f64 {
    fn as_f64(&self) -> f64 {
        *self
    }
}
impl AsF64 for Option<f64> {
    fn as_f64(&self) -> f64 {
        self.unwrap_or(f64::NAN)
    }
}
impl AsF64 for () {
    fn as_f64(&self) -> f64 {
        0.0
    }
}
impl AsF64 for i32 {
    fn as_f64(&self) -> f64 {
        *self as f64
    }
}
fn v_bits<T: AsF64>(v: &T) -> f64 {
    v.as_f64()
}

fn run(t: &Typed) -> Result<(Vec<StepOut>, Option<TermOut>), String> {
    let d = data(t.len);
    let n = t.len;
    let w = t.param.max(1);
    guarded(|| -> Result<(Vec<StepOut>, Option<TermOut>), String> {
        Ok(match t.root.as_str() {
            "std_range" => run_root!((0..n as i32), t, de, cl),
            "std_range_inclusive" => run_root!((1..=n as i32), t, de, cl),
            "vec_into_iter" => run_root!(d.clone().into_iter(), t, de, cl),
            "deque_into_iter" => run_root!(d.iter().copied().collect::<VecDeque<f64>>().into_iter(), t, de, cl),
            "unit_items_repeat_n" => run_root!(std::iter::repeat_n((), n), t, de, cl),
            "once_chain_vec" => run_root!(std::iter::once(-1.0f64).chain(d.clone().into_iter()), t, de),
            "cloned_iter_to_trust" => run_root!(d.iter().cloned().to_trust(n), t, de, cl),
            "range_to_trust" => run_root!((0..n as i32).to_trust(n), t, de, cl),
            "sim_clone_to_trust" => run_root!(SimSource::new(d.clone()).to_trust(n), t, de, cl),
            "vec_titer" => run_root!(d.titer(), t, de),
            "vec_to_trust" => run_root!(d.titer().to_trust(n), t, de),
            "deque_to_trust" => {
                let q: VecDeque<f64> = {
                    let mut q = VecDeque::with_capacity(n.max(1));
                    if n > 0 {
                        q.push_back(0.0);
                        q.pop_front();
                    }
                    q.extend(d.iter().copied());
                    q
                };
                run_root!(q.titer().to_trust(n), t, de)
            },
            "array1_to_trust" => {
                let a = Array1::from_vec(d.clone());
                run_root!(a.titer().to_trust(n), t, de)
            },
            "sim_to_trust" => run_root!(SimSource::new(d.clone()).to_trust(n), t, de),
            "to_trust_rev" => run_root!(d.titer().to_trust(n).rev(), t, de),
            "to_trust_map" => run_root!(d.titer().to_trust(n).map(|x| x), t, de),
            "opt_titer" => {
                let o = d.opt();
                run_root!(o.titer(), t, de)
            },
            "rolling_custom_iter" => run_root!(d.rolling_custom_iter(w, |s: &[f64]| s.len() as i32), t, fwd),
            "vabs" => run_root!(d.titer().vabs(), t, fwd),
            "ffill" => run_root!(d.titer().ffill(None), t, fwd),
            other => return Err(format!("{HARNESS} unknown typed root {other}")),
        })
    })
    .and_then(|r| r)
}

fn check_std_audit(t: &Typed, name: &str) -> (Vec<Violation>, RunStats) {
    let mut st = RunStats::default();
    let mut viol = vec![];
    st.executions += t.len as u64 + 1;
    match audit_std(name, t.len) {
        Err(msg) => {
            if msg.starts_with(HARNESS) {
                st.harness_error = Some(msg);
            } else {
                st.ended_early = Some(msg);
            }
        },
        Ok(None) => st.hit("std_adaptor_not_declared_trusted"),
        Ok(Some(None)) => st.hit("std_adaptor_declared_trusted_and_exact"),
        Ok(Some(Some((cut, hi, n)))) => viol.push(Violation {
            props: vec!["C09"],
            oracle: "H1",
            stage: format!("declared-trusted:{name}"),
            detail: format!(
                "std `{name}` over a container iterator of {} items is declared TrustedLen by the library; after {cut} pulls its upper bound is {hi:?} but {n} items follow",
                t.len
            ),
        }),
    }
    let sig = format!("stdaudit|{name}|{}", t.len.min(6));
    let mut h = 0xcbf2_9ce4_8422_2325u64;
    fnv(&mut h, sig.as_bytes());
    st.signature = h;
    st.digest = h ^ viol.len() as u64;
    st.nontrivial = true;
    (viol, st)
}

pub fn check_typed(t: &Typed) -> (Vec<Violation>, RunStats) {
    if let Some(name) = t.root.strip_prefix("std:") {
        return check_std_audit(t, name);
    }
    let mut st = RunStats::default();
    let mut viol = vec![];
    let de = ROOTS.iter().find(|(n, _, _)| *n == t.root).map(|(_, d, c)| (*d, *c));
    let stage = format!("typed:{}", t.root);
    let Some((de, cl)) = de else {
        st.harness_error = Some(format!("{HARNESS} unknown typed root {}", t.root));
        return (viol, st);
    };
    if !cl && Iterator::any(&mut t.script.iter(), |o| matches!(o, TOp::Checkpoint | TOp::Rewind | TOp::SwapToClone)) {
        st.harness_error = Some(format!("{HARNESS} clone operation on a root that is not Clone"));
        return (viol, st);
    }
    if !de && Iterator::any(&mut t.script.iter(), |o| o.needs_de()) {
        st.harness_error = Some(format!("{HARNESS} back operation on a forward-only root"));
        return (viol, st);
    }
    st.executions += t.script.len() as u64 + 2;
    match run(t) {
        Err(msg) => {
            if msg.starts_with(HARNESS) {
                st.harness_error = Some(msg);
            } else {
                viol.push(Violation {
                    props: vec!["C09", "C19"],
                    oracle: "H4",
                    stage: stage.clone(),
                    detail: format!("library panicked: {msg}"),
                });
            }
        },
        Ok((steps, term)) => {
            for (cut, s) in steps.iter().enumerate() {
                st.hints_checked += 1;
                st.items_pulled += s.rest.len() as u64;
                let got = s.rest.len();
                let after = if cut == 0 { "before any step".to_string() } else { format!("after {}", t.script[cut - 1].name()) };
                let bad_hint = if s.capped { matches!(s.hint.1, Some(h) if h < got) } else { s.hint.1 != Some(got) };
                if bad_hint {
                    viol.push(Violation {
                        props: vec!["C09"],
                        oracle: "H1",
                        stage: stage.clone(),
                        detail: format!(
                            "{after} (step {cut}) size_hint() = {:?} but next()-iteration yields {}{got} items",
                            s.hint,
                            if s.capped { "at least " } else { "" }
                        ),
                    });
                    break;
                }
                if !s.capped && s.tl_empty != Some(got == 0) {
                    viol.push(Violation {
                        props: vec!["C09"],
                        oracle: "H1",
                        stage: stage.clone(),
                        detail: format!("{after} (step {cut}) TrustedLen::is_empty() = {:?} but next()-iteration yields {got} items", s.tl_empty),
                    });
                    break;
                }
                if !s.capped && s.tl_len != Some(got) {
                    viol.push(Violation {
                        props: vec!["C09"],
                        oracle: "H1",
                        stage: stage.clone(),
                        detail: format!("{after} (step {cut}) TrustedLen::len() = {:?} but next()-iteration yields {got} items", s.tl_len),
                    });
                    break;
                }
            }
            if let (Some(term), Some(last)) = (term, steps.last()) {
                let ok = match &term {
                    TermOut::Count(n) => *n == last.rest.len(),
                    TermOut::Last(l) => *l == <[u64]>::last(&last.rest).copied(),
                    TermOut::Seq(s) => *s == last.rest,
                };
                if !ok {
                    let shown = match &term {
                        TermOut::Count(n) => format!("{n}"),
                        TermOut::Last(l) => format!("{l:?}"),
                        TermOut::Seq(s) => format!("{} items", s.len()),
                    };
                    viol.push(Violation {
                        props: vec!["C09", "C19"],
                        oracle: if matches!(
                            t.terminal,
                            TTerm::CollectTrusted | TTerm::FrontEndTrustedVec | TTerm::FrontEndTrustedDeque | TTerm::FrontEndPlainVec
                        ) {
                            "H2"
                        } else {
                            "H1c"
                        },
                        stage: stage.clone(),
                        detail: format!(
                            "{} gives {shown}; next()-iteration of the same stream yields {} items",
                            t.terminal.name(),
                            last.rest.len()
                        ),
                    });
                }
            }
        },
    }
    let pulled = !t.script.is_empty();
    if pulled && matches!(t.terminal, TTerm::CollectTrusted | TTerm::FrontEndTrustedVec | TTerm::FrontEndTrustedDeque) {
        st.fault("partial_then_handoff");
    }
    if t.len == 0 {
        st.fault("empty_input");
    }
    st.hit("typed_static_dispatch_scenario");
    st.consumer_ops += t.script.len() as u64;
    let mut sig = format!("typed|{}|{}|{}|", t.root, t.len.min(4), t.terminal.name());
    let mut last = "";
    for o in &t.script {
        if o.name() != last {
            sig.push_str(o.name());
            sig.push(',');
            last = o.name();
        }
    }
    let mut h = 0xcbf2_9ce4_8422_2325u64;
    fnv(&mut h, sig.as_bytes());
    st.signature = h;
    let mut d = 0xcbf2_9ce4_8422_2325u64;
    fnv(&mut d, format!("{:?}", t).as_bytes());
    fnv(&mut d, &(viol.len() as u64).to_le_bytes());
    st.digest = d;
    st.nontrivial = pulled;
    (viol, st)
}

fn gen_op(rng: &mut Rng, de: bool, cl: bool) -> TOp {
    loop {
        let name = TOp::NAMES[rng.below(TOp::NAMES.len())];
        let op = TOp::make(name, rng.below(4)).unwrap();
        if !cl && matches!(op, TOp::Checkpoint | TOp::Rewind | TOp::SwapToClone) {
            continue;
        }
        if de || !op.needs_de() {
            return op;
        }
    }
}

pub fn gen_typed(rng: &mut Rng, max_len: usize) -> Typed {
    let (root, de, cl) = ROOTS[rng.below(ROOTS.len())];
    let len = match rng.below(6) {
        0 => 0,
        1 => 1,
        _ => rng.below(max_len + 1),
    };
    let n_ops = rng.below(7);
    Typed {
        root: root.to_string(),
        len,
        param: 1 + rng.below(len + 2),
        script: (0..n_ops).map(|_| gen_op(rng, de, cl)).collect(),
        terminal: TTerm::ALL[rng.below(TTerm::ALL.len())],
    }
}

/// every root x length x single step (every k) x terminal, and every ordered pair of steps
pub fn directed(max_len: usize) -> Vec<Typed> {
    let mut out = vec![];
    for name in STD_ADAPTORS {
        for len in 0..=max_len + 3 {
            out.push(Typed { root: format!("std:{name}"), len, param: 0, script: vec![], terminal: TTerm::Drain });
        }
    }
    for (root, de, cl) in ROOTS {
        for len in 0..=max_len {
            let mut singles = vec![];
            for name in TOp::NAMES {
                for k in 0..=3usize {
                    let op = TOp::make(name, k).unwrap();
                    if matches!(
                        op,
                        TOp::Next | TOp::NextBack | TOp::FoldAll | TOp::MaxAll | TOp::Checkpoint | TOp::Rewind | TOp::SwapToClone
                    ) && k > 0
                    {
                        continue;
                    }
                    if !cl && matches!(op, TOp::Checkpoint | TOp::Rewind | TOp::SwapToClone) {
                        continue;
                    }
                    if de || !op.needs_de() {
                        singles.push(op);
                    }
                }
            }
            for term in TTerm::ALL {
                out.push(Typed { root: root.into(), len, param: 2, script: vec![], terminal: term });
                for a in &singles {
                    out.push(Typed { root: root.into(), len, param: 1 + len / 2, script: vec![a.clone()], terminal: term });
                }
            }
            // checkpoint, consume somehow, rewind / continue with a clone
            for a in singles.iter().filter(|_| cl) {
                if matches!(a, TOp::Checkpoint | TOp::Rewind | TOp::SwapToClone) {
                    continue;
                }
                for tail in [TOp::Rewind, TOp::SwapToClone] {
                    out.push(Typed {
                        root: root.into(),
                        len,
                        param: 2,
                        script: vec![TOp::Next, TOp::Checkpoint, a.clone(), tail.clone()],
                        terminal: if a.k() % 2 == 0 { TTerm::Drain } else { TTerm::CollectTrusted },
                    });
                    out.push(Typed {
                        root: root.into(),
                        len,
                        param: 2,
                        script: vec![TOp::Checkpoint, a.clone(), a.clone(), tail],
                        terminal: TTerm::Count,
                    });
                }
            }
            if len <= 4 {
                for a in &singles {
                    for b in &singles {
                        if a.k() > 1 || b.k() > 1 {
                            continue;
                        }
                        out.push(Typed {
                            root: root.into(),
                            len,
                            param: len + 1,
                            script: vec![a.clone(), b.clone()],
                            terminal: match (a.k() + 2 * b.k()) % 4 {
                                0 => TTerm::Drain,
                                1 => TTerm::CollectTrusted,
                                2 => TTerm::FrontEndTrustedVec,
                                _ => TTerm::FrontEndTrustedDeque,
                            },
                        });
                    }
                }
            }
        }
    }
    out
}


// ---------------------------------------------------------------------------------------
// Audit of the std adaptors the library declares trusted-length. Whether `Filter<..>` (say) is
// `TrustedLen` is decided at compile time by the library's `unsafe impl` lines; the audit uses
// inherent-method-before-trait-method resolution to find out, and if an adaptor IS declared
// trusted it must hold what it announces at every cut point, like every other hand-out.

pub struct Audit<I, F: Fn() -> I>(pub F);

/// (cut, upper bound, items that then follow) for the first disagreement, or None
pub type AuditOut = Option<Option<(usize, Option<usize>, usize)>>;

impl<I: TrustedLen, F: Fn() -> I> Audit<I, F> {
    /// chosen when `I: TrustedLen` holds
    pub fn run(&self, max_cut: usize) -> AuditOut {
        for cut in 0..=max_cut {
            let mut it = (self.0)();
            for _ in 0..cut {
                if it.next().is_none() {
                    break;
                }
            }
            let hint = it.size_hint();
            let mut n = 0usize;
            while it.next().is_some() {
                n += 1;
                if n > 5000 {
                    break;
                }
            }
            if hint.1 != Some(n) {
                return Some(Some((cut, hint.1, n)));
            }
        }
        Some(None)
    }
}

pub trait AuditFallback {
    /// chosen when the adaptor is not declared trusted-length: nothing to hold it to
    fn run(&self, _max_cut: usize) -> AuditOut {
        None
    }
}
impl<I, F: Fn() -> I> AuditFallback for Audit<I, F> {}

pub const STD_ADAPTORS: [&str; 22] = [
    "filter",
    "filter_map",
    "take_while",
    "skip_while",
    "map_while",
    "flat_map",
    "flatten",
    "scan_stopping_early",
    "successors",
    "from_fn",
    "skip",
    "inspect",
    "fuse",
    "peekable",
    "chain",
    "zip_unequal",
    "enumerate",
    "rev",
    "step_by",
    "take",
    "range_inclusive_step",
    "once_chain_repeat_n",
];

pub fn audit_std(name: &str, len: usize) -> Result<AuditOut, String> {
    let d = data(len);
    let d = &d;
    let keep = |i: &f64| !(i.is_nan() || (*i as i64) % 2 == 1);
    guarded(|| {
        Ok(match name {
            "filter" => Audit(|| d.titer().filter(keep)).run(len),
            "filter_map" => Audit(|| d.titer().filter_map(|x| if keep(&x) { Some(x) } else { None })).run(len),
            "take_while" => Audit(|| d.titer().take_while(|x| *x < 2.0)).run(len),
            "skip_while" => Audit(|| d.titer().skip_while(|x| *x < 2.0)).run(len),
            "map_while" => Audit(|| d.titer().map_while(|x| if x < 2.0 { Some(x) } else { None })).run(len),
            "flat_map" => Audit(|| d.titer().flat_map(|x| if keep(&x) { Some(x) } else { None })).run(len),
            "flatten" => Audit(|| d.titer().map(|x| if keep(&x) { Some(x) } else { None }).flatten()).run(len),
            // NOTE: the library declares Scan trusted; that is only sound while the closure never
            // stops (DESIGN 8.3). A stopping closure is the caller's doing and is not audited.
            "scan_stopping_early" => None,
            "successors" => Audit(|| std::iter::successors(Some(0usize), |k| if *k + 1 < d.len() { Some(*k + 1) } else { None })).run(len),
            "from_fn" => {
                Audit(|| {
                    let mut k = 0usize;
                    let n = d.len();
                    std::iter::from_fn(move || {
                        k += 1;
                        if k <= n { Some(k) } else { None }
                    })
                })
                .run(len)
            },
            "skip" => Audit(|| d.titer().skip(2)).run(len),
            "inspect" => Audit(|| d.titer().inspect(|_| ())).run(len),
            "fuse" => Audit(|| d.titer().fuse()).run(len),
            "peekable" => Audit(|| d.titer().peekable()).run(len),
            "chain" => Audit(|| d.titer().chain(d.titer().take(2))).run(len + 2),
            "zip_unequal" => Audit(|| d.titer().zip(d.titer().skip(1).take(3))).run(len),
            "enumerate" => Audit(|| d.titer().enumerate()).run(len),
            "rev" => Audit(|| d.titer().rev()).run(len),
            "step_by" => Audit(|| d.titer().step_by(3)).run(len),
            "take" => Audit(|| d.titer().take(len / 2 + 1)).run(len),
            "range_inclusive_step" => Audit(|| (0..=len as i32).step_by(2)).run(len),
            "once_chain_repeat_n" => Audit(|| std::iter::once(1.0).chain(std::iter::repeat_n(2.0, len))).run(len + 1),
            other => return Err(format!("{HARNESS} unknown std adaptor {other}")),
        })
    })
    .and_then(|r| r)
}
