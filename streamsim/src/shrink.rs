//! Minimisation of a failing program while the same violation class persists.

use crate::check::Violation;
use crate::program::*;
use crate::runner::check_program;

fn simpler_vals(v: &Val) -> Vec<Val> {
    match v {
        Val::Null => vec![],
        Val::I(i) if *i != 1 => vec![Val::I(1)],
        Val::F(f) if *f != 1.0 => vec![Val::F(1.0)],
        _ => vec![],
    }
}

fn lag_candidates(n: i32) -> Vec<i32> {
    let mut out = vec![];
    if n != 0 {
        out.push(n / 2);
        out.push(n - n.signum());
        if n == i32::MIN {
            out.push(-64);
        }
        if n == i32::MAX {
            out.push(64);
        }
    }
    out.retain(|x| *x != n);
    out.dedup();
    out
}

fn k_candidates(k: usize) -> Vec<usize> {
    let mut out = vec![];
    if k > 0 {
        out.push(k / 2);
        out.push(k - 1);
    }
    out.dedup();
    out
}

fn viewop_candidates(op: &ViewOp) -> Vec<ViewOp> {
    let mut out = vec![];
    match op {
        ViewOp::VDiff { n, fill } => {
            for m in lag_candidates(*n) {
                out.push(ViewOp::VDiff { n: m, fill: fill.clone() });
            }
            if fill.is_some() {
                out.push(ViewOp::VDiff { n: *n, fill: None });
            }
        },
        ViewOp::VPct { n } => {
            for m in lag_candidates(*n) {
                out.push(ViewOp::VPct { n: m });
            }
        },
        ViewOp::VPart { k, sort, rev } => {
            for m in k_candidates(*k) {
                out.push(ViewOp::VPart { k: m, sort: *sort, rev: *rev });
            }
            if *sort {
                out.push(ViewOp::VPart { k: *k, sort: false, rev: *rev });
            }
            if *rev {
                out.push(ViewOp::VPart { k: *k, sort: *sort, rev: false });
            }
        },
        ViewOp::VArgPart { k, sort, rev } => {
            for m in k_candidates(*k) {
                out.push(ViewOp::VArgPart { k: m, sort: *sort, rev: *rev });
            }
            if *sort {
                out.push(ViewOp::VArgPart { k: *k, sort: false, rev: *rev });
            }
            if *rev {
                out.push(ViewOp::VArgPart { k: *k, sort: *sort, rev: false });
            }
        },
        ViewOp::RollIter { w } => {
            for m in k_candidates(*w) {
                if m >= 1 {
                    out.push(ViewOp::RollIter { w: m });
                }
            }
        },
        ViewOp::Winsor { method, p } => {
            if p.is_some() {
                out.push(ViewOp::Winsor { method: *method, p: None });
            }
            if *method != 0 {
                out.push(ViewOp::Winsor { method: 0, p: *p });
            }
        },
        _ => {},
    }
    out
}

fn stage_candidates(st: &Stage) -> Vec<Stage> {
    let mut out = vec![];
    match st {
        Stage::Shift { n, v } => {
            for m in lag_candidates(*n) {
                out.push(Stage::Shift { n: m, v: v.clone() });
            }
            for w in simpler_vals(v) {
                out.push(Stage::Shift { n: *n, v: w });
            }
        },
        Stage::VShift { n, fill } => {
            for m in lag_candidates(*n) {
                out.push(Stage::VShift { n: m, fill: fill.clone() });
            }
            if let Some(v) = fill {
                for w in simpler_vals(v) {
                    out.push(Stage::VShift { n: *n, fill: Some(w) });
                }
            }
        },
        Stage::Take { k } => {
            for m in k_candidates(*k) {
                out.push(Stage::Take { k: m });
            }
        },
        Stage::Remat { backend, op } => {
            if *backend != Backend::Vec && !matches!(backend, Backend::OptOfVec | Backend::OptOfArray1) {
                out.push(Stage::Remat { backend: Backend::Vec, op: op.clone() });
            }
            for o in viewop_candidates(op) {
                out.push(Stage::Remat { backend: backend.clone(), op: o });
            }
        },
        _ => {},
    }
    out
}

fn backend_candidates(b: &Backend) -> Vec<Backend> {
    match b {
        Backend::Vec | Backend::Sim => vec![],
        Backend::Deque { head } if *head > 0 => vec![Backend::Vec, Backend::Deque { head: 0 }],
        Backend::ArcDeque { head } if *head > 0 => vec![Backend::Vec, Backend::ArcDeque { head: 0 }],
        Backend::ArrayView { stride } if *stride != 1 => vec![Backend::Vec, Backend::ArrayView { stride: 1 }],
        Backend::Polars { chunks } if !chunks.is_empty() => {
            vec![Backend::Polars { chunks: chunks[..chunks.len() - 1].to_vec() }]
        },
        Backend::Polars { .. } => vec![],
        Backend::OptOfVec => vec![],
        Backend::OptOfArray1 => vec![Backend::OptOfVec],
        _ => vec![Backend::Vec],
    }
}

fn pipe_candidates(p: &Pipe) -> Vec<Pipe> {
    let mut out = vec![];
    // drop halves / single consumer steps
    let n = p.ops.len();
    if n > 1 {
        let mut q = p.clone();
        q.ops.truncate(n / 2);
        out.push(q);
        let mut q = p.clone();
        q.ops.drain(..n / 2);
        out.push(q);
    }
    for i in 0..n {
        let mut q = p.clone();
        q.ops.remove(i);
        out.push(q);
    }
    // simpler terminal
    if p.terminal != Terminal::Drain {
        let mut q = p.clone();
        q.terminal = Terminal::Drain;
        out.push(q);
    }
    if let Terminal::HandOff(s) = &p.terminal {
        let simpler = match s {
            Sink::TrustedVec1(c) if *c != Container::Vec => Some(Sink::TrustedVec1(Container::Vec)),
            Sink::PlainVec1(c) if *c != Container::Vec => Some(Sink::PlainVec1(Container::Vec)),
            Sink::WithLen(c) if *c != Container::Vec => Some(Sink::WithLen(Container::Vec)),
            Sink::TryTrusted(c) if *c != Container::Vec => Some(Sink::TryTrusted(Container::Vec)),
            Sink::TryPlain(c) if *c != Container::Vec => Some(Sink::TryPlain(Container::Vec)),
            Sink::Write { buf, len, slack } if *len > 0 => Some(Sink::Write { buf: *buf, len: len - 1, slack: *slack }),
            _ => None,
        };
        if let Some(s) = simpler {
            let mut q = p.clone();
            q.terminal = Terminal::HandOff(s);
            out.push(q);
        }
    }
    // shorter data
    let l = p.data.len();
    if l > 1 {
        let mut q = p.clone();
        q.data.truncate(l / 2);
        q.errs.retain(|e| *e < l / 2);
        out.push(q);
    }
    for i in (0..l).rev() {
        let mut q = p.clone();
        q.data.remove(i);
        q.errs = q.errs.iter().filter(|e| **e != i).map(|e| if *e > i { e - 1 } else { *e }).collect();
        out.push(q);
    }
    // fewer error items
    for i in 0..p.errs.len() {
        let mut q = p.clone();
        q.errs.remove(i);
        out.push(q);
    }
    // simpler layout
    for b in backend_candidates(&p.backend) {
        let mut q = p.clone();
        q.backend = b;
        out.push(q);
    }
    // simpler root
    if p.root != ViewOp::Titer {
        let mut q = p.clone();
        q.root = ViewOp::Titer;
        out.push(q);
    }
    for r in viewop_candidates(&p.root) {
        let mut q = p.clone();
        q.root = r;
        out.push(q);
    }
    // simpler stage parameters; Nth -> Next
    for (i, op) in p.ops.iter().enumerate() {
        match op {
            Op::Wrap(st) => {
                for s in stage_candidates(st) {
                    let mut q = p.clone();
                    q.ops[i] = Op::Wrap(s);
                    out.push(q);
                }
            },
            Op::Nth(k) => {
                let mut q = p.clone();
                q.ops[i] = if *k == 0 { Op::Next } else { Op::Nth(k - 1) };
                out.push(q);
            },
            Op::NextBack => {
                let mut q = p.clone();
                q.ops[i] = Op::Next;
                out.push(q);
            },
            Op::NthBack(k) => {
                let mut q = p.clone();
                q.ops[i] = if *k == 0 { Op::NextBack } else { Op::NthBack(k - 1) };
                out.push(q);
            },
            Op::Next => {},
        }
    }
    // simpler values
    for i in 0..l {
        for w in simpler_vals(&p.data[i]) {
            let mut q = p.clone();
            q.data[i] = w;
            out.push(q);
        }
    }
    out
}

fn gen_candidates(g: &Gen) -> Vec<Gen> {
    let mut out = vec![];
    if g.out != Container::Sim {
        let mut q = g.clone();
        q.out = Container::Sim;
        out.push(q);
    }
    out
}

fn roll_candidates(r: &Roll) -> Vec<Roll> {
    let mut out = vec![];
    let l = r.data.len();
    for i in (0..l).rev() {
        let mut q = r.clone();
        q.data.remove(i);
        out.push(q);
    }
    if r.window > 1 {
        let mut q = r.clone();
        q.window -= 1;
        out.push(q);
    }
    out
}

fn candidates(p: &Program) -> Vec<Program> {
    match p {
        Program::Pipe(p) => pipe_candidates(p).into_iter().map(Program::Pipe).collect(),
        Program::Gen(g) => gen_candidates(g).into_iter().map(Program::Gen).collect(),
        Program::Roll(r) => roll_candidates(r).into_iter().map(Program::Roll).collect(),
        Program::Typed(t) => {
            let mut out = vec![];
            for i in 0..t.script.len() {
                let mut q = t.clone();
                q.script.remove(i);
                out.push(Program::Typed(q));
            }
            if t.len > 0 {
                let mut q = t.clone();
                q.len -= 1;
                out.push(Program::Typed(q));
            }
            if t.terminal != crate::typed::TTerm::Drain {
                let mut q = t.clone();
                q.terminal = crate::typed::TTerm::Drain;
                out.push(Program::Typed(q));
            }
            out
        },
    }
}

/// Returns the minimised program, the violation it still shows, and the number of candidate
/// executions spent.
pub fn minimise(p: &Program, class: &str, prop: &str, budget: usize) -> (Program, Violation, usize) {
    let same = |q: &Program| -> Option<Violation> {
        let (v, st) = check_program(q);
        if st.harness_error.is_some() {
            return None;
        }
        v.into_iter().find(|v| v.class() == class && v.concerns(prop))
    };
    let mut best = p.clone();
    let mut best_v = same(&best).expect("minimise called on a program that does not fail");
    let mut spent = 1usize;
    loop {
        let mut improved = false;
        for cand in candidates(&best) {
            if spent >= budget {
                return (best, best_v, spent);
            }
            spent += 1;
            if let Some(v) = same(&cand) {
                best = cand;
                best_v = v;
                improved = true;
                break;
            }
        }
        if !improved {
            return (best, best_v, spent);
        }
    }
}
