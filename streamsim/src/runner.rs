//! Batch driver: seeded search over programs, deterministic for any worker count.

use std::collections::{BTreeMap, BTreeSet};
use std::sync::Arc;

use crate::check::{RunStats, Violation, check_pipe, fnv};
use crate::directed;
use crate::pgen::{GenCfg, Mix, gen_pipe};
use crate::genroll::{check_gen, check_roll};
use crate::json::J;
use crate::program::*;
use crate::rng::Rng;

pub fn check_program(p: &Program) -> (Vec<Violation>, RunStats) {
    match p {
        Program::Pipe(p) => check_pipe(p),
        Program::Gen(g) => check_gen(g),
        Program::Roll(r) => check_roll(r),
        Program::Typed(t) => crate::typed::check_typed(t),
    }
}

/// A source of programs: either a seeded stream or a directed (enumerated) list.
pub enum Source {
    Seeded { name: &'static str, stream_id: u64, cfg: GenCfg, runs: u64 },
    Directed { name: &'static str, programs: Arc<Vec<Program>> },
    /// seeded statically typed scenarios (typed.rs)
    SeededTyped { name: &'static str, stream_id: u64, max_len: usize, runs: u64 },
}

impl Source {
    pub fn name(&self) -> &'static str {
        match self {
            Source::Seeded { name, .. } | Source::Directed { name, .. } | Source::SeededTyped { name, .. } => name,
        }
    }
    pub fn len(&self) -> u64 {
        match self {
            Source::Seeded { runs, .. } | Source::SeededTyped { runs, .. } => *runs,
            Source::Directed { programs, .. } => programs.len() as u64,
        }
    }
    pub fn program(&self, seed: u64, idx: u64) -> Program {
        match self {
            Source::Seeded { stream_id, cfg, .. } => {
                let mut rng = Rng::for_run(seed, idx, *stream_id);
                Program::Pipe(gen_pipe(&mut rng, cfg))
            },
            Source::Directed { programs, .. } => programs[idx as usize].clone(),
            Source::SeededTyped { stream_id, max_len, .. } => {
                let mut rng = Rng::for_run(seed, idx, *stream_id);
                Program::Typed(crate::typed::gen_typed(&mut rng, *max_len))
            },
        }
    }
}

pub struct Found {
    pub source: &'static str,
    pub run: u64,
    pub program: Program,
    pub violation: Violation,
}

#[derive(Default)]
pub struct Agg {
    pub runs: u64,
    pub executions: u64,
    pub consumer_ops: u64,
    pub items_pulled: u64,
    pub hints_checked: u64,
    pub ended_early: u64,
    pub faults: BTreeMap<String, u64>,
    pub runs_with_fault: u64,
    pub fault_free_runs: u64,
    pub probes: BTreeMap<String, u64>,
    pub signatures: BTreeSet<u64>,
    pub nontrivial_signatures: BTreeSet<u64>,
    pub digest: u64,
    pub found: Vec<Found>,
    pub harness_errors: Vec<(String, u64, String)>,
    pub per_source: BTreeMap<String, u64>,
    pub samples: Vec<(String, u64, Program)>,
}

impl Agg {
    fn merge(&mut self, o: Agg) {
        self.runs += o.runs;
        self.executions += o.executions;
        self.consumer_ops += o.consumer_ops;
        self.items_pulled += o.items_pulled;
        self.hints_checked += o.hints_checked;
        self.ended_early += o.ended_early;
        self.runs_with_fault += o.runs_with_fault;
        self.fault_free_runs += o.fault_free_runs;
        for (k, v) in o.faults {
            *self.faults.entry(k).or_insert(0) += v;
        }
        for (k, v) in o.probes {
            *self.probes.entry(k).or_insert(0) += v;
        }
        for (k, v) in o.per_source {
            *self.per_source.entry(k).or_insert(0) += v;
        }
        self.signatures.extend(o.signatures);
        self.nontrivial_signatures.extend(o.nontrivial_signatures);
        self.digest = self.digest.wrapping_add(o.digest);
        self.found.extend(o.found);
        self.harness_errors.extend(o.harness_errors);
        self.samples.extend(o.samples);
    }
}

pub struct Plan {
    pub prop: &'static str,
    pub sources: Vec<Source>,
}

pub fn plan(prop: &str, tier: &str, polars: bool, scale: f64) -> Plan {
    let thorough = tier == "thorough";
    let max_len = if thorough { 24 } else { 12 };
    // lengths around powers of two, 16 ..= long_len (+1)
    let long_len = if thorough { 1024 } else { 256 };
    let n = |q: u64, t: u64| -> u64 { ((if thorough { t } else { q }) as f64 * scale) as u64 };
    match prop {
        "C09" => Plan {
            prop: "C09",
            sources: vec![
                Source::Directed {
                    name: "directed/adaptor-x-parameter-x-cut",
                    programs: Arc::new(directed::c09_sweep(if thorough { 7 } else { 5 })),
                },
                Source::Directed {
                    name: "directed/generators",
                    programs: Arc::new(directed::generators(if thorough { 2 } else { 1 })),
                },
                Source::Directed {
                    name: "directed/rolling-default-paths",
                    programs: Arc::new(directed::rolling(if thorough { 9 } else { 6 })),
                },
                Source::Directed {
                    name: "directed/bounded-exhaustive-histories",
                    programs: Arc::new(if thorough { directed::c09_histories(5, 3) } else { directed::c09_histories(4, 2) }),
                },
                Source::Directed {
                    name: "directed/typed-consumption-methods",
                    programs: Arc::new(
                        crate::typed::directed(if thorough { 7 } else { 5 }).into_iter().map(Program::Typed).collect(),
                    ),
                },
                Source::SeededTyped { name: "seeded/typed", stream_id: 3, max_len, runs: n(150_000, 1_500_000) },
                Source::Seeded {
                    name: "seeded/pipelines",
                    stream_id: 1,
                    cfg: GenCfg { max_len, max_depth: 6, polars, mix: Mix::Pipelines, long: false },
                    runs: n(1_500_000, 15_000_000),
                },
                Source::Seeded {
                    name: "seeded/sinks",
                    stream_id: 2,
                    cfg: GenCfg { max_len, max_depth: 3, polars, mix: Mix::Sinks, long: false },
                    runs: n(200_000, 2_000_000),
                },
                Source::Seeded {
                    name: "seeded/pipelines-long-inputs",
                    stream_id: 4,
                    cfg: GenCfg { max_len: long_len, max_depth: 4, polars, mix: Mix::Pipelines, long: true },
                    runs: n(20_000, 100_000),
                },
                Source::Seeded {
                    name: "seeded/sinks-long-inputs",
                    stream_id: 5,
                    cfg: GenCfg { max_len: long_len, max_depth: 3, polars, mix: Mix::Sinks, long: true },
                    runs: n(5_000, 25_000),
                },
            ],
        },
        "C19" => Plan {
            prop: "C19",
            sources: vec![
                Source::Directed {
                    name: "directed/sinks-x-errors-x-lengths",
                    programs: Arc::new(directed::c19_sweep(if thorough { 7 } else { 5 })),
                },
                Source::Directed {
                    name: "directed/generators",
                    programs: Arc::new(directed::generators(if thorough { 2 } else { 1 })),
                },
                Source::Directed {
                    name: "directed/rolling-default-paths",
                    programs: Arc::new(directed::rolling(if thorough { 9 } else { 6 })),
                },
                Source::Directed {
                    name: "directed/typed-consumption-methods",
                    programs: Arc::new(
                        crate::typed::directed(if thorough { 7 } else { 5 }).into_iter().map(Program::Typed).collect(),
                    ),
                },
                Source::Seeded {
                    name: "seeded/sinks",
                    stream_id: 2,
                    cfg: GenCfg { max_len, max_depth: 3, polars, mix: Mix::Sinks, long: false },
                    runs: n(1_000_000, 10_000_000),
                },
                Source::Seeded {
                    name: "seeded/pipelines",
                    stream_id: 1,
                    cfg: GenCfg { max_len, max_depth: 6, polars, mix: Mix::Pipelines, long: false },
                    runs: n(200_000, 2_000_000),
                },
                Source::Seeded {
                    name: "seeded/sinks-long-inputs",
                    stream_id: 5,
                    cfg: GenCfg { max_len: long_len, max_depth: 3, polars, mix: Mix::Sinks, long: true },
                    runs: n(20_000, 100_000),
                },
                Source::Seeded {
                    name: "seeded/pipelines-long-inputs",
                    stream_id: 4,
                    cfg: GenCfg { max_len: long_len, max_depth: 4, polars, mix: Mix::Pipelines, long: true },
                    runs: n(5_000, 25_000),
                },
            ],
        },
        _ => panic!("unknown property {prop}"),
    }
}

fn run_one(agg: &mut Agg, prop: &str, src_idx: usize, src: &Source, seed: u64, idx: u64) {
    crate::crash::note_run(src_idx as u32, idx);
    let program = src.program(seed, idx);
    let (viol, st) = check_program(&program);
    agg.runs += 1;
    *agg.per_source.entry(src.name().to_string()).or_insert(0) += 1;
    agg.executions += st.executions;
    agg.consumer_ops += st.consumer_ops;
    agg.items_pulled += st.items_pulled;
    agg.hints_checked += st.hints_checked;
    if st.ended_early.is_some() {
        agg.ended_early += 1;
    }
    if st.faults.is_empty() {
        agg.fault_free_runs += 1;
    } else {
        agg.runs_with_fault += 1;
    }
    for (k, v) in &st.faults {
        *agg.faults.entry(k.to_string()).or_insert(0) += v;
    }
    for (k, v) in &st.probes {
        *agg.probes.entry(k.to_string()).or_insert(0) += v;
    }
    agg.signatures.insert(st.signature);
    if st.nontrivial {
        agg.nontrivial_signatures.insert(st.signature);
    }
    // order-independent digest of every run's history
    let mut h = 0xcbf2_9ce4_8422_2325u64;
    fnv(&mut h, src.name().as_bytes());
    fnv(&mut h, &idx.to_le_bytes());
    fnv(&mut h, &st.signature.to_le_bytes());
    fnv(&mut h, &st.digest.to_le_bytes());
    fnv(&mut h, &(viol.len() as u64).to_le_bytes());
    agg.digest = agg.digest.wrapping_add(h);
    if let Some(e) = st.harness_error {
        agg.harness_errors.push((src.name().to_string(), idx, e));
    }
    for v in viol {
        if v.concerns(prop) && agg.found.len() < 4096 {
            agg.found.push(Found { source: src.name(), run: idx, program: program.clone(), violation: v });
        }
    }
    // a few samples, chosen by position so the choice is deterministic
    if idx % 9973 == 7 && agg.samples.len() < 64 {
        agg.samples.push((src.name().to_string(), idx, program));
    }
}

pub fn run_plan(plan: &Plan, seed: u64, workers: usize) -> Agg {
    let mut total = Agg::default();
    for (src_idx, src) in plan.sources.iter().enumerate() {
        let n = src.len();
        let mut parts: Vec<Agg> = Vec::new();
        std::thread::scope(|sc| {
            let mut hs = Vec::new();
            for w in 0..workers {
                let prop = plan.prop;
                hs.push(sc.spawn(move || {
                    crate::exec::install_panic_hook_once();
                    let mut agg = Agg::default();
                    let mut idx = w as u64;
                    while idx < n {
                        run_one(&mut agg, prop, src_idx, src, seed, idx);
                        idx += workers as u64;
                    }
                    agg
                }));
            }
            for h in hs {
                parts.push(h.join().expect("worker crashed"));
            }
        });
        for p in parts {
            total.merge(p);
        }
    }
    total.found.sort_by(|a, b| (a.source, a.run).cmp(&(b.source, b.run)));
    total.samples.sort_by(|a, b| (&a.0, a.1).cmp(&(&b.0, b.1)));
    total.harness_errors.sort();
    total
}

pub fn counts_to_j(m: &BTreeMap<String, u64>) -> J {
    J::Obj(m.iter().map(|(k, v)| (k.clone(), J::Int(*v as i64))).collect())
}
