//! streamsim - deterministic simulation of tevec's pull-based trusted-length streams
//! (consumer histories, hand-off points, abandonment, error items, length mismatches).
//!
//! usage:
//!   streamsim run --prop C09|C19 --tier quick|thorough [--seed N] [--workers N] [--scale F]
//!                 [--evidence FILE] [--replay-dir DIR] [--known FILE] [--summary-out FILE]
//!                 [--extra-summary FILE]
//!   streamsim replay FILE
//!   streamsim digest --prop P --tier T [--seed N] [--workers N] [--scale F]
//!   streamsim show --prop P --source NAME --run I [--seed N]
//!
//! exit codes: 0 property held on everything explored, 1 violation (with a VIOLATION line),
//! 2 harness error (never with a VIOLATION line).

mod check;
mod crash;
mod directed;
mod elem;
mod exec;
mod pgen;
mod genroll;
mod json;
mod program;
mod rng;
mod runner;
mod shrink;
mod simvec;
mod stream;
mod typed;

use std::collections::BTreeMap;
use std::time::Instant;

use json::J;
use program::Program;
use runner::*;

pub const DEFAULT_SEED: u64 = 20260927;

struct Args {
    pos: Vec<String>,
    kv: BTreeMap<String, String>,
}

fn parse_args() -> Args {
    let mut pos = vec![];
    let mut kv = BTreeMap::new();
    let mut it = std::env::args().skip(1);
    while let Some(a) = it.next() {
        if let Some(k) = a.strip_prefix("--") {
            let v = it.next().unwrap_or_default();
            kv.insert(k.to_string(), v);
        } else {
            pos.push(a);
        }
    }
    Args { pos, kv }
}

/// any integer (also negative or beyond 64 bits) or text selects a seed deterministically
fn parse_seed(s: Option<&String>) -> u64 {
    match s.map(|s| s.trim()) {
        None | Some("") => DEFAULT_SEED,
        Some(t) => {
            if let Ok(u) = t.parse::<u64>() {
                u
            } else if let Ok(i) = t.parse::<i64>() {
                i as u64
            } else {
                let mut h = 0xcbf2_9ce4_8422_2325u64;
                for b in t.bytes() {
                    h ^= b as u64;
                    h = h.wrapping_mul(0x0000_0100_0000_01B3);
                }
                h
            }
        },
    }
}

fn harness_fail(msg: &str) -> ! {
    eprintln!("HARNESS-ERROR: {msg}");
    std::process::exit(2);
}

struct Known {
    status: String,
    property: String,
    class: String,
    what: String,
}

fn load_known(path: Option<&String>) -> Vec<Known> {
    let Some(path) = path else { return vec![] };
    let Ok(text) = std::fs::read_to_string(path) else { return vec![] };
    let mut out = vec![];
    for line in text.lines() {
        let line = line.trim();
        if line.is_empty() || line.starts_with('#') {
            continue;
        }
        match J::parse(line) {
            Ok(j) => {
                let g = |k: &str| j.get(k).and_then(|v| v.as_str().ok()).unwrap_or("").to_string();
                out.push(Known { status: g("status"), property: g("property"), class: g("class"), what: g("what") });
            },
            Err(e) => harness_fail(&format!("known-findings file {path}: {e}")),
        }
    }
    out
}

fn polars_built() -> bool {
    cfg!(feature = "polars")
}

fn profile_name() -> &'static str {
    if cfg!(debug_assertions) { "dev (overflow checks on)" } else { "release (overflow checks off)" }
}

/// the build's label: profile plus whatever the check script says about it (sanitizer, polars)
fn profile_label(args: &Args) -> String {
    match args.kv.get("label") {
        Some(l) if !l.is_empty() => format!("{l}; {}", profile_name()),
        _ => profile_name().to_string(),
    }
}

fn replay_file_json(
    label: &str,
    prop: &str,
    seed: u64,
    f: &Found,
    minimised: &Program,
    v: &check::Violation,
    spent: usize,
) -> J {
    J::obj(vec![
        ("property", J::s(prop)),
        ("class", J::s(&v.class())),
        ("oracle", J::s(v.oracle)),
        ("stage", J::s(&v.stage)),
        ("detail", J::s(&v.detail)),
        ("seed", J::Int(seed as i64)),
        ("source", J::s(f.source)),
        ("run", J::Int(f.run as i64)),
        ("profile", J::s(profile_name())),
        ("build_label", J::s(label)),
        ("minimisation_executions", J::Int(spent as i64)),
        ("program", minimised.to_j()),
        ("original_program", f.program.to_j()),
    ])
}

fn cmd_replay(args: &Args) -> ! {
    let Some(path) = args.pos.get(1) else { harness_fail("replay needs a file") };
    let text = std::fs::read_to_string(path).unwrap_or_else(|e| harness_fail(&format!("{path}: {e}")));
    let j = J::parse(&text).unwrap_or_else(|e| harness_fail(&format!("{path}: {e}")));
    let prop = j.get("property").and_then(|v| v.as_str().ok()).unwrap_or("C09").to_string();
    let class = j.get("class").and_then(|v| v.as_str().ok()).unwrap_or("").to_string();
    exec::install_panic_hook_once();
    let mut viol = vec![];
    let mut st = check::RunStats::default();
    if let Some(batch) = j.get("batch") {
        // crash replay of last resort: the whole batch again, single-threaded
        let tier = batch.get("tier").and_then(|v| v.as_str().ok()).unwrap_or("quick").to_string();
        let seed = batch.get("seed").and_then(|v| v.as_i64().ok()).unwrap_or(DEFAULT_SEED as i64) as u64;
        let scale = match batch.get("scale") {
            Some(J::Float(f)) => *f,
            Some(J::Int(i)) => *i as f64,
            _ => 1.0,
        };
        let plan = plan(&prop, &tier, polars_built(), scale);
        let agg = run_plan(&plan, seed, 1);
        for f in agg.found {
            viol.push(f.violation);
        }
    } else if let Some(seq) = j.get("programs") {
        for pj in seq.as_arr().unwrap_or_else(|e| harness_fail(&e)) {
            let program = Program::from_j(pj).unwrap_or_else(|e| harness_fail(&format!("{path}: {e}")));
            let (v, s) = check_program(&program);
            viol.extend(v);
            if s.harness_error.is_some() {
                st = s;
            }
        }
    } else {
        let pj = j.get("program").unwrap_or(&j);
        let program = Program::from_j(pj).unwrap_or_else(|e| harness_fail(&format!("{path}: {e}")));
        let (v, s) = check_program(&program);
        viol = v;
        st = s;
    }
    if let Some(e) = st.harness_error {
        harness_fail(&e);
    }
    let mine: Vec<_> = viol.iter().filter(|v| v.concerns(&prop)).collect();
    if mine.is_empty() {
        println!("replay {path}: no violation of {prop} (ended_early={:?})", st.ended_early);
        std::process::exit(0);
    }
    let v = mine.iter().find(|v| v.class() == class).unwrap_or(&mine[0]);
    println!("replay {path}: {} [{}] {}", prop, v.class(), v.detail);
    if !class.is_empty() && v.class() != class {
        println!("note: recorded class was {class}");
    }
    println!("VIOLATION property={prop} replay={path}");
    std::process::exit(1);
}

fn self_cmd(args: &Args, cmd: &str) -> std::process::Command {
    let exe = std::env::current_exe().unwrap_or_else(|e| harness_fail(&format!("current_exe: {e}")));
    let mut c = std::process::Command::new(exe);
    c.arg(cmd);
    for p in args.pos.iter().skip(1) {
        c.arg(p);
    }
    for (k, v) in &args.kv {
        c.arg(format!("--{k}")).arg(v);
    }
    // sanitizer builds: die by SIGABRT so that the crash handler can name the run
    c.env("ASAN_OPTIONS", "abort_on_error=1:detect_leaks=0:handle_abort=0");
    c.env("MSAN_OPTIONS", "abort_on_error=1:handle_abort=0");
    c
}

fn died(status: &std::process::ExitStatus) -> bool {
    !matches!(status.code(), Some(0) | Some(1) | Some(2))
}

fn describe(status: &std::process::ExitStatus) -> String {
    use std::os::unix::process::ExitStatusExt;
    match (status.code(), status.signal()) {
        (Some(c), _) if c == crash::CRASH_EXIT => "fatal signal caught by the crash handler".to_string(),
        (Some(c), _) => format!("exit code {c}"),
        (None, Some(s)) => format!("signal {s}"),
        _ => "unknown".to_string(),
    }
}

/// `replay`: the file is executed in a child process, so that a crash is a result, not the end
fn supervise_replay(args: &Args) -> ! {
    let Some(path) = args.pos.get(1) else { harness_fail("replay needs a file") };
    let out = self_cmd(args, "replay-inner").output().unwrap_or_else(|e| harness_fail(&format!("spawn: {e}")));
    print!("{}", String::from_utf8_lossy(&out.stdout));
    if !died(&out.status) {
        eprint!("{}", String::from_utf8_lossy(&out.stderr));
        std::process::exit(out.status.code().unwrap_or(2));
    }
    let text = std::fs::read_to_string(path).unwrap_or_default();
    let prop = J::parse(&text)
        .ok()
        .and_then(|j| j.get("property").and_then(|v| v.as_str().ok()).map(|s| s.to_string()))
        .unwrap_or("C09".into());
    let err = String::from_utf8_lossy(&out.stderr);
    let tail: Vec<&str> = err.lines().rev().take(12).collect();
    for l in tail.iter().rev() {
        println!("  | {l}");
    }
    println!("replay {path}: the process executing the program died ({}): memory was corrupted", describe(&out.status));
    println!("VIOLATION property={prop} replay={path}");
    std::process::exit(1);
}

/// `run`: the batch runs in a child process; if it dies, the runs it executed last are turned
/// into a replay file that is verified (in another child) to die again
fn supervise_run(args: &Args) -> ! {
    let t0 = Instant::now();
    let out = self_cmd(args, "run-inner").output().unwrap_or_else(|e| harness_fail(&format!("spawn: {e}")));
    print!("{}", String::from_utf8_lossy(&out.stdout));
    if !died(&out.status) {
        eprint!("{}", String::from_utf8_lossy(&out.stderr));
        std::process::exit(out.status.code().unwrap_or(2));
    }
    let err = String::from_utf8_lossy(&out.stderr).to_string();
    let prop = args.kv.get("prop").cloned().unwrap_or_else(|| harness_fail("--prop missing"));
    let tier = args.kv.get("tier").cloned().unwrap_or("quick".into());
    let seed: u64 = parse_seed(args.kv.get("seed"));
    let scale: f64 = args.kv.get("scale").and_then(|s| s.parse().ok()).unwrap_or(1.0);
    let replay_dir = args.kv.get("replay-dir").cloned().unwrap_or("replays".into());
    let _ = std::fs::create_dir_all(&replay_dir);
    for l in err.lines().rev().take(25).collect::<Vec<_>>().iter().rev() {
        println!("  | {l}");
    }
    println!("the batch process died ({})", describe(&out.status));
    let plan = plan(&prop, &tier, polars_built(), scale);
    let recent = crash::parse_crash(&err).map(|(_, r)| r).unwrap_or_default();
    let programs: Vec<(String, u64, Program)> = recent
        .iter()
        .filter(|(s, r)| *s < plan.sources.len() && *r < plan.sources[*s].len())
        .map(|(s, r)| (plan.sources[*s].name().to_string(), *r, plan.sources[*s].program(seed, *r)))
        .collect();
    let head = |extra: Vec<(&str, J)>| {
        let mut o = vec![
            ("property", J::s(&prop)),
            ("class", J::s("H5:process-died")),
            ("oracle", J::s("H5")),
            ("stage", J::s("process-died")),
            ("detail", J::s(&format!("the process executing the batch died ({})", describe(&out.status)))),
            ("seed", J::Int(seed as i64)),
            ("profile", J::s(profile_name())),
            ("build_label", J::s(&profile_label(args))),
        ];
        o.extend(extra);
        J::obj(o)
    };
    let try_file = |name: &str, j: J| -> Option<String> {
        let fname = format!("{replay_dir}/{prop}-H5_process-died-{seed}-{name}.json");
        std::fs::write(&fname, j.pretty()).ok()?;
        let mut a = Args { pos: vec!["replay".into(), fname.clone()], kv: BTreeMap::new() };
        a.kv.clear();
        let o = self_cmd(&a, "replay-inner").output().ok()?;
        if died(&o.status) || o.status.code() == Some(1) { Some(fname) } else { None }
    };
    let mut found: Option<String> = None;
    // 1. the run that was executing when the process died
    if let Some((src, run, p)) = programs.first() {
        found = try_file(
            &format!("{}-{run}", src.replace('/', "_")),
            head(vec![("source", J::s(src)), ("run", J::Int(*run as i64)), ("program", p.to_j())]),
        );
    }
    // 2. the last runs of that worker, in the order they were executed
    if found.is_none() && programs.len() > 1 {
        let seq: Vec<J> = programs.iter().rev().map(|(_, _, p)| p.to_j()).collect();
        found = try_file("recent-sequence", head(vec![("programs", J::Arr(seq))]));
    }
    // 3. the whole batch again, single-threaded
    if found.is_none() {
        found = try_file(
            "batch",
            head(vec![(
                "batch",
                J::obj(vec![("tier", J::s(&tier)), ("seed", J::Int(seed as i64)), ("scale", J::Float(scale))]),
            )]),
        );
    }
    let Some(fname) = found else {
        harness_fail("the batch process died but no replay reproduces it");
    };
    if let Some(path) = args.kv.get("evidence") {
        let distinct: std::collections::BTreeSet<String> = programs.iter().map(|(_, _, p)| p.to_j().to_string()).collect();
        let ev = J::obj(vec![
            ("property_id", J::s(&prop)),
            ("tier", J::s(&tier)),
            ("seed", J::Int(seed as i64)),
            ("level", J::s(if prop == "C19" { "fault_enumeration" } else { "exploration" })),
            ("coverage", J::obj(vec![
                ("evaluations", J::Int(programs.len().max(1) as i64)),
                ("distinct_nontrivial", J::Int(distinct.len() as i64)),
                ("rule", J::s("the batch process died before it could report; only the runs named by the crash handler are counted")),
                ("samples", J::Arr(programs.iter().take(3).map(|(_, _, p)| p.to_j()).collect())),
            ])),
            ("wall_s", J::Float(t0.elapsed().as_secs_f64())),
            ("violations", J::Int(1)),
        ]);
        let _ = std::fs::write(path, ev.pretty());
    }
    println!("VIOLATION property={prop} replay={fname}");
    std::process::exit(1);
}

fn cmd_show(args: &Args) -> ! {
    let prop = args.kv.get("prop").cloned().unwrap_or("C09".into());
    let tier = args.kv.get("tier").cloned().unwrap_or("quick".into());
    let seed: u64 = args.kv.get("seed").and_then(|s| s.parse().ok()).unwrap_or(DEFAULT_SEED);
    let source = args.kv.get("source").cloned().unwrap_or("seeded/pipelines".into());
    let run: u64 = args.kv.get("run").and_then(|s| s.parse().ok()).unwrap_or(0);
    let plan = plan(&prop, &tier, polars_built(), 1.0);
    let src = plan.sources.iter().find(|s| s.name() == source).unwrap_or_else(|| harness_fail("no such source"));
    let p = src.program(seed, run);
    println!("{}", p.to_j().pretty());
    exec::install_panic_hook_once();
    let (viol, st) = check_program(&p);
    println!("violations: {viol:#?}");
    println!("stats: {st:#?}");
    std::process::exit(0);
}

fn main() {
    let args = parse_args();
    let cmd = args.pos.first().cloned().unwrap_or_default();
    match cmd.as_str() {
        "run" => supervise_run(&args),
        "replay" => supervise_replay(&args),
        "run-inner" | "digest" => {
            crash::install();
            cmd_run(&args, cmd == "digest")
        },
        "replay-inner" => {
            crash::install();
            cmd_replay(&args)
        },
        "show" => cmd_show(&args),
        _ => harness_fail("usage: streamsim run|replay|digest|show ..."),
    }
}

fn cmd_run(args: &Args, digest_only: bool) -> ! {
    let prop = args.kv.get("prop").cloned().unwrap_or_else(|| harness_fail("--prop missing"));
    let tier = args.kv.get("tier").cloned().unwrap_or("quick".into());
    let seed: u64 = parse_seed(args.kv.get("seed"));
    let workers: usize = args.kv.get("workers").and_then(|s| s.parse().ok()).unwrap_or(16).max(1);
    let scale: f64 = args.kv.get("scale").and_then(|s| s.parse().ok()).unwrap_or(1.0);
    let t0 = Instant::now();
    exec::install_panic_hook_once();
    let plan = plan(&prop, &tier, polars_built(), scale);
    let agg = run_plan(&plan, seed, workers);
    let wall_run = t0.elapsed().as_secs_f64();

    if digest_only {
        println!(
            "digest prop={prop} tier={tier} seed={seed} runs={} digest={:016x} found={} distinct={}",
            agg.runs,
            agg.digest,
            agg.found.len(),
            agg.signatures.len()
        );
        std::process::exit(0);
    }

    if !agg.harness_errors.is_empty() {
        for (s, i, e) in agg.harness_errors.iter().take(10) {
            eprintln!("harness error in {s} run {i}: {e}");
        }
        harness_fail(&format!("{} runs hit a harness error", agg.harness_errors.len()));
    }

    // ---- violations: one report per distinct class, minimised, replay verified in a fresh process
    let known = load_known(args.kv.get("known"));
    let replay_dir = args.kv.get("replay-dir").cloned().unwrap_or("replays".into());
    let mut by_class: BTreeMap<String, &Found> = BTreeMap::new();
    for f in &agg.found {
        by_class.entry(f.violation.class()).or_insert(f);
    }
    let mut new_violations = 0usize;
    let mut known_hits = 0usize;
    let mut reported: Vec<J> = vec![];
    for (class, f) in by_class.iter() {
        let is_known = known.iter().find(|k| k.status == "known" && k.property == prop && &k.class == class);
        if let Some(k) = is_known {
            println!("KNOWN-FINDING: property={prop} {} [{}]", k.what, k.class);
            known_hits += 1;
            continue;
        }
        if new_violations >= 8 {
            new_violations += 1;
            continue;
        }
        let (min_p, min_v, spent) = shrink::minimise(&f.program, class, &prop, 3000);
        let _ = std::fs::create_dir_all(&replay_dir);
        let fname = format!(
            "{replay_dir}/{prop}-{}-{seed}-{}-{}.json",
            class.replace([':', '<', '>', '/', ' '], "_"),
            f.source.replace('/', "_"),
            f.run
        );
        let j = replay_file_json(&profile_label(args), &prop, seed, f, &min_p, &min_v, spent);
        if let Err(e) = std::fs::write(&fname, j.pretty()) {
            harness_fail(&format!("cannot write {fname}: {e}"));
        }
        // the minimised file must fail the same way in a fresh process
        let exe = std::env::current_exe().unwrap();
        let out = std::process::Command::new(exe).arg("replay").arg(&fname).output();
        match out {
            Ok(o) if o.status.code() == Some(1) => {},
            Ok(o) => harness_fail(&format!(
                "replay of {fname} did not reproduce (exit {:?}): {}",
                o.status.code(),
                String::from_utf8_lossy(&o.stdout)
            )),
            Err(e) => harness_fail(&format!("cannot run replay: {e}")),
        }
        println!("violation of {prop} [{}]: {}", min_v.class(), min_v.detail);
        println!("VIOLATION property={prop} replay={fname}");
        reported.push(J::obj(vec![("class", J::s(class)), ("detail", J::s(&min_v.detail)), ("replay", J::s(&fname))]));
        new_violations += 1;
    }

    // ---- evidence
    let wall = t0.elapsed().as_secs_f64();
    let level = if prop == "C19" { "fault_enumeration" } else { "exploration" };
    let samples: Vec<J> = agg
        .samples
        .iter()
        .take(6)
        .map(|(s, i, p)| J::obj(vec![("source", J::s(s)), ("run", J::Int(*i as i64)), ("program", p.to_j())]))
        .collect();
    let mut profiles = vec![J::obj(vec![
        ("profile", J::s(&profile_label(args))),
        ("tier", J::s(&tier)),
        ("scale", J::Float(scale)),
        ("runs", J::Int(agg.runs as i64)),
        ("violations", J::Int(new_violations as i64)),
        ("digest", J::s(&format!("{:016x}", agg.digest))),
    ])];
    let mut extra_violations = 0i64;
    // summaries of the other builds of the same engine (dev profile, sanitizer builds, Polars build)
    for path in args.kv.get("extra-summary").map(|s| s.as_str()).unwrap_or("").split(',') {
        if path.is_empty() {
            continue;
        }
        match std::fs::read_to_string(path).ok().and_then(|t| J::parse(&t).ok()) {
            Some(e) => {
                extra_violations += e.get("violations").and_then(|v| v.as_i64().ok()).unwrap_or(0);
                profiles.push(e);
            },
            None => profiles.push(J::obj(vec![
                ("profile", J::s(path)),
                ("note", J::s("no summary: that build reported a violation or died; see its output")),
            ])),
        }
    }
    let rule = "cases = programs (source container and layout, library pipeline, simulated consumer script, terminal operation, sink) \
generated before the run from (seed, run index) or enumerated by the directed sweeps; the size hint is read after every consumer step and \
compared with what plain safe iteration then yields. distinct = distinct run signatures (hash of: element type, backend kind, root hand-out \
with parameter class relative to the length {n<-L, n=-L, -L<n<0, 0, 0<n<L, n=L, n>L, extreme; k+1<L, k+1=L, k>=L}, length class, run-length \
compressed consumer trace over {F,B,N,W(stage+parameter class)}, terminal/sink kind, set of fault kinds that fired). non-trivial = the consumer \
pulled at least one item before the terminal operation or at least one fault kind fired (for generator / rolling scenarios: the simulator-owned \
container interrogated a library-internal iterator).";
    let coverage = J::obj(vec![
        ("evaluations", J::Int(agg.runs as i64)),
        ("distinct_nontrivial", J::Int(agg.nontrivial_signatures.len() as i64)),
        ("rule", J::s(rule)),
        ("samples", J::Arr(samples)),
        ("distinct_signatures_all", J::Int(agg.signatures.len() as i64)),
        ("exhaustive", J::Bool(false)),
        ("executions_of_real_code", J::Int(agg.executions as i64)),
        ("runs_per_source", counts_to_j(&agg.per_source)),
        ("sources_enumerated_completely_within_their_stated_bounds", J::Arr(
            agg.per_source.keys().filter(|k| k.starts_with("directed/")).map(|k| J::s(k)).collect(),
        )),
        ("simulated_time", J::obj(vec![
            ("note", J::s("the system has no clock or timer; logical time is counted in consumer steps and items pulled")),
            ("consumer_steps", J::Int(agg.consumer_ops as i64)),
            ("items_pulled", J::Int(agg.items_pulled as i64)),
            ("size_hints_checked", J::Int(agg.hints_checked as i64)),
        ])),
        ("fault_kinds_fired", counts_to_j(&agg.faults)),
        ("runs_with_at_least_one_fault", J::Int(agg.runs_with_fault as i64)),
        ("fault_free_runs", J::Int(agg.fault_free_runs as i64)),
        ("rare_branch_probes", counts_to_j(&agg.probes)),
        ("runs_ended_early_without_violation", J::Int(agg.ended_early as i64)),
        ("runs_per_hour", J::Int((agg.runs as f64 / wall_run.max(1e-9) * 3600.0) as i64)),
        ("seeds_per_hour", J::s("one seed per batch; every run is keyed by (seed, run index)")),
        ("history_digest", J::s(&format!("{:016x}", agg.digest))),
        ("workers", J::Int(workers as i64)),
        ("profiles", J::Arr(profiles)),
        ("polars_backend_included", J::Bool(polars_built())),
        ("components", J::obj(vec![
            ("real", J::Arr(vec![
                J::s("tea-core: titer() of Vec / Arc / VecDeque / ndarray Array1 and strided views, OptIter, TrustIter, TrustedLen impls, collect_from_trusted / try_collect_from_trusted, Vec1 collectors, write_trust_iter, UninitVec / UninitRefMut of Vec, VecDeque, ndarray, Linspace via Vec1Create, rolling drivers"),
                J::s("tea-map: abs, vabs, shift, vshift, ffill, bfill, fill, vclip, vcut, vdiff, vpct_change, vpartition, varg_partition"),
                J::s("tevec: winsorize; tea-rolling ts_* (as producers of internal iterators)"),
                J::s("std glue the library declares trusted: map, rev, take, chain, zip, repeat_n, enumerate, cloned"),
            ])),
            ("stub", J::Arr(vec![
                J::s("SimSource: honest double-ended trusted-length stream over a script of Ok/Err/None/tracked items"),
                J::s("simulated consumer: seeded script of next / next_back / nth / wrap / drain / hand-off / drop"),
                J::s("SimVec / SimUninit / SimBuf: simulator-owned implementation of the library's Vec1 / UninitVec / UninitRefMut traits"),
            ])),
            ("absent_in_the_system", J::s("threads, clocks, network, disk: nothing to simulate or stub")),
        ])),
        ("violations_reported", J::Arr(reported)),
        ("known_findings_matched", J::Int(known_hits as i64)),
    ]);
    let ev = J::obj(vec![
        ("property_id", J::s(&prop)),
        ("tier", J::s(&tier)),
        ("seed", J::Int(seed as i64)),
        ("level", J::s(level)),
        ("coverage", coverage),
        ("assumptions", J::Arr(vec![
            J::s("sampling, not proof: a clean batch is evidence within the stated bands (lengths 0..=12 quick / 0..=24 thorough, plus lengths within 1 of a power of two up to 256 quick / 1024 thorough; lags, kth, windows relative to the length; depth <= 6); size thresholds elsewhere are not reached"),
            J::s("a TrustedLen implementor supplied by the caller is honest (SimSource is exact by construction)"),
            J::s("panics thrown by user callbacks, allocation failure and lying TrustedLen impls are not injected: no listed property speaks about them"),
            J::s("raw-pointer collectors are only executed natively after the probe phase showed an exact size hint, so the harness itself stays free of undefined behaviour"),
        ])),
        ("wall_s", J::Float((wall * 1000.0).round() / 1000.0)),
        ("violations", J::Int(new_violations as i64 + extra_violations)),
    ]);
    if let Some(path) = args.kv.get("evidence") {
        if let Some(dir) = std::path::Path::new(path).parent() {
            let _ = std::fs::create_dir_all(dir);
        }
        if let Err(e) = std::fs::write(path, ev.pretty()) {
            harness_fail(&format!("cannot write evidence {path}: {e}"));
        }
    }
    if let Some(path) = args.kv.get("summary-out") {
        let s = J::obj(vec![
            ("profile", J::s(&profile_label(args))),
            ("tier", J::s(&tier)),
            ("scale", J::Float(scale)),
            ("polars_backend_included", J::Bool(polars_built())),
            ("runs", J::Int(agg.runs as i64)),
            ("violations", J::Int(new_violations as i64)),
            ("digest", J::s(&format!("{:016x}", agg.digest))),
            ("fault_kinds_fired", counts_to_j(&agg.faults)),
        ]);
        let _ = std::fs::write(path, s.to_string());
    }
    println!(
        "{prop} {tier} [{}]: {} runs, {} executions, {} distinct signatures ({} non-trivial), {} violation class(es), {} known, {:.1}s",
        profile_label(args),
        agg.runs,
        agg.executions,
        agg.signatures.len(),
        agg.nontrivial_signatures.len(),
        new_violations,
        known_hits,
        wall
    );
    std::process::exit(if new_violations > 0 { 1 } else { 0 });
}
