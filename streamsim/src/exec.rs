//! Executing a program against the real library code. Nothing here draws from a PRNG.

use std::collections::VecDeque;
use std::panic::{AssertUnwindSafe, catch_unwind};
use std::sync::Arc;

use tea_core::prelude::*;
use tea_core::export::ndarray::{Array1, ArrayView1, ArrayViewMut1, s};
use tevec::map::{MapBasic, MapValidBasic, MapValidFinal, MapValidVec, WinsorizeMethod};

use crate::elem::*;
use crate::program::*;
use crate::simvec::*;
use crate::stream::*;

// ---------------------------------------------------------------------------------------
// panics raised by library code are data for the oracles, not crashes of the harness

thread_local! {
    static QUIET: std::cell::Cell<bool> = const { std::cell::Cell::new(false) };
}

pub fn install_panic_hook() {
    let default = std::panic::take_hook();
    std::panic::set_hook(Box::new(move |info| {
        if !QUIET.with(|q| q.get()) {
            default(info);
        }
    }));
}

pub fn install_panic_hook_once() {
    static ONCE: std::sync::Once = std::sync::Once::new();
    ONCE.call_once(install_panic_hook);
}

pub fn guarded<R>(f: impl FnOnce() -> R) -> Result<R, String> {
    let before = QUIET.with(|q| q.replace(true));
    let r = catch_unwind(AssertUnwindSafe(f));
    QUIET.with(|q| q.set(before));
    r.map_err(|e| {
        if let Some(s) = e.downcast_ref::<&str>() {
            s.to_string()
        } else if let Some(s) = e.downcast_ref::<String>() {
            s.clone()
        } else {
            "<non-string panic>".to_string()
        }
    })
}

/// marker the harness puts in front of its own failures, so they are never taken for
/// library panics
pub const HARNESS: &str = "HARNESS:";

fn bad<T>(msg: impl Into<String>) -> Result<T, String> {
    Err(format!("{HARNESS} {}", msg.into()))
}

// ---------------------------------------------------------------------------------------
// typed <-> run-time typed

pub trait Wrap<'a>: Sized {
    fn wrap(s: S<'a, Self>) -> Stream<'a>;
}
macro_rules! impl_wrap {
    ($($t:ty => $v:ident),*) => { $(impl<'a> Wrap<'a> for $t { fn wrap(s: S<'a, Self>) -> Stream<'a> { Stream::$v(s) } })* };
}
impl_wrap!(f64 => F64, i32 => I32, Option<f64> => OF64, Option<i32> => OI32, Tracked => Trk,
    TResult<f64> => RF64, TResult<i32> => RI32, TResult<Option<f64>> => ROF64,
    TResult<Option<i32>> => ROI32, TResult<Tracked> => RTrk);

// ---------------------------------------------------------------------------------------
// containers

fn make_deque<T: Clone>(data: Vec<T>, head: usize) -> VecDeque<T> {
    let n = data.len();
    let mut d: VecDeque<T> = VecDeque::with_capacity(n.max(1));
    if n > 0 {
        let cap = d.capacity();
        let head = head % cap;
        // advance the ring's head by `head` slots, then fill: the contents wrap around
        for _ in 0..head {
            d.push_back(data[0].clone());
            d.pop_front();
        }
    }
    for v in data {
        d.push_back(v);
    }
    d
}

fn make_strided<T: Clone>(data: &[T], stride: i64) -> Array1<T> {
    let n = data.len();
    let st = stride.unsigned_abs() as usize;
    let len = n * st;
    if n == 0 {
        return Array1::from_vec(vec![]);
    }
    let mut owner: Vec<T> = (0..len).map(|_| data[0].clone()).collect();
    for (i, v) in data.iter().enumerate() {
        let pos = if stride > 0 { i * st } else { len - 1 - i * st };
        owner[pos] = v.clone();
    }
    Array1::from_vec(owner)
}

// ---------------------------------------------------------------------------------------
// what the library hands out from a container

fn view_common<'a, V, T, R>(
    arena: &'a Arena,
    v: &'a V,
    op: &ViewOp,
    roll: R,
) -> Result<Stream<'a>, String>
where
    V: Vec1View<T> + 'a,
    T: Elem + IsNone + Wrap<'a> + 'a,
    T::Inner: Number,
    Option<T::Inner>: Wrap<'a>,
    R: FnMut(V::SliceOutput<'a>) -> i32 + 'a,
{
    Ok(match op {
        ViewOp::Titer => T::wrap(S::de(v.titer())),
        ViewOp::TiterMap => T::wrap(S::de(TIter::map(v, |x| x))),
        ViewOp::OptIterCast => Stream::OF64(S::de(v.opt_iter_cast::<f64>())),
        ViewOp::ToOptIter => <Option<T::Inner>>::wrap(S::de(v.to_opt_iter())),
        ViewOp::OptTiter => {
            let o = arena.alloc(v.opt());
            <Option<T::Inner>>::wrap(S::de(o.titer()))
        },
        ViewOp::OptIntoIter => {
            let o = arena.alloc(v.opt());
            <Option<T::Inner>>::wrap(S::fw(o.into_iter()))
        },
        ViewOp::VPart { k, sort, rev } => T::wrap(S::fw(v.vpartition(*k, *sort, *rev))),
        ViewOp::VArgPart { k, sort, rev } => Stream::I32(S::fw(v.varg_partition(*k, *sort, *rev))),
        ViewOp::RollIter { w } => Stream::I32(S::fw(v.rolling_custom_iter(*w, roll))),
        _ => return bad(format!("view op {} not available for this element type", op.kind())),
    })
}

fn view_num<'a, V, T, R>(arena: &'a Arena, v: &'a V, op: &ViewOp, roll: R) -> Result<Stream<'a>, String>
where
    V: Vec1View<T> + 'a,
    T: Elem + IsNone<Inner = T> + Number + Wrap<'a> + Cast<f64> + 'a,
    Option<T>: Wrap<'a>,
    R: FnMut(V::SliceOutput<'a>) -> i32 + 'a,
{
    Ok(match op {
        ViewOp::IterCast => Stream::F64(S::de(v.iter_cast::<f64>())),
        ViewOp::VDiff { n, fill } => T::wrap(S::fw(v.vdiff(*n, fill.as_ref().map(T::from_val)))),
        ViewOp::VPct { n } => Stream::F64(S::fw(v.vpct_change(*n))),
        ViewOp::Winsor { method, p } => {
            let m = match method {
                0 => WinsorizeMethod::Quantile,
                1 => WinsorizeMethod::Median,
                _ => WinsorizeMethod::Sigma,
            };
            match v.winsorize(m, *p) {
                Ok(it) => Stream::F64(S::fw(it)),
                // documented Err (q outside [0, 1]): an empty stream stands in for "no stream"
                Err(e) => return Err(format!("DOCUMENTED-ERR: {e}")),
            }
        },
        _ => return view_common(arena, v, op, roll),
    })
}

/// `&[T]` and `&mut [T]` are TIter but not Vec1View: only titer / map
fn titer_only<'a, T: Elem + Wrap<'a> + 'a>(
    arena: &'a Arena,
    data: Vec<T>,
    backend: &Backend,
    op: &ViewOp,
) -> Result<Stream<'a>, String> {
    let map = match op {
        ViewOp::Titer => false,
        ViewOp::TiterMap => true,
        _ => return bad("slices only offer titer / map"),
    };
    let owner: &'a mut Vec<T> = arena.alloc_mut(data);
    Ok(match backend {
        Backend::SliceMut => {
            let h: &'a &'a mut [T] = arena.alloc(owner.as_mut_slice());
            if map { T::wrap(S::de(TIter::map(h, |x| x))) } else { T::wrap(S::de(h.titer())) }
        },
        _ => {
            let sl: &'a [T] = owner.as_slice();
            let h: &'a &'a [T] = arena.alloc(sl);
            if map { T::wrap(S::de(TIter::map(h, |x| x))) } else { T::wrap(S::de(h.titer())) }
        },
    })
}

macro_rules! container_fn {
    ($name:ident, $t:ty, $view:ident) => {
        fn $name<'a>(
            arena: &'a Arena,
            data: Vec<$t>,
            backend: &Backend,
            op: &ViewOp,
        ) -> Result<Stream<'a>, String> {
            match backend {
                Backend::Vec => {
                    let v = arena.alloc(data);
                    $view(arena, v, op, |s: &[$t]| s.len() as i32)
                },
                Backend::ArcVec => {
                    let v = arena.alloc(Arc::new(data));
                    $view(arena, v, op, |s: &[$t]| s.len() as i32)
                },
                Backend::SliceRef | Backend::SliceMut => titer_only::<$t>(arena, data, backend, op),
                Backend::FixedArray => {
                    macro_rules! fixed {
                        ($n:literal) => {{
                            let arr: [$t; $n] = match data.try_into() {
                                Ok(a) => a,
                                Err(_) => return bad("fixed array of wrong length"),
                            };
                            let v = arena.alloc(arr);
                            $view(arena, v, op, |s: &[$t]| s.len() as i32)
                        }};
                    }
                    match data.len() {
                        0 => fixed!(0),
                        1 => fixed!(1),
                        2 => fixed!(2),
                        3 => fixed!(3),
                        4 => fixed!(4),
                        5 => fixed!(5),
                        6 => fixed!(6),
                        // longer than the instantiated sizes (re-materialised stream): plain Vec
                        _ => {
                            let v = arena.alloc(data);
                            $view(arena, v, op, |s: &[$t]| s.len() as i32)
                        },
                    }
                },
                Backend::NdViewMut => {
                    let owner = arena.alloc_mut(Array1::from_vec(data));
                    let vm: ArrayViewMut1<'a, $t> = owner.view_mut();
                    let v = arena.alloc(vm);
                    $view(arena, v, op, |s: ArrayView1<'_, $t>| s.len() as i32)
                },
                Backend::Deque { head } => {
                    let v = arena.alloc(make_deque(data, *head));
                    $view(arena, v, op, |s: std::collections::vec_deque::Iter<'_, $t>| ExactSizeIterator::len(&s) as i32)
                },
                Backend::ArcDeque { head } => {
                    let v = arena.alloc(Arc::new(make_deque(data, *head)));
                    $view(arena, v, op, |s: std::collections::vec_deque::Iter<'_, $t>| ExactSizeIterator::len(&s) as i32)
                },
                Backend::Array1 => {
                    let v = arena.alloc(Array1::from_vec(data));
                    $view(arena, v, op, |s: ArrayView1<'_, $t>| s.len() as i32)
                },
                Backend::ArrayView { stride } => {
                    if *stride == 0 {
                        return bad("stride 0");
                    }
                    let owner = arena.alloc(make_strided(&data, *stride));
                    let view: ArrayView1<'a, $t> = owner.slice(s![..;*stride as isize]);
                    if view.len() != data.len() {
                        return bad("strided view has wrong length");
                    }
                    let v = arena.alloc(view);
                    $view(arena, v, op, |s: ArrayView1<'_, $t>| s.len() as i32)
                },
                Backend::OptOfVec => {
                    let v = arena.alloc(data);
                    let o = arena.alloc(v.opt());
                    view_common(arena, o, op, |s: Vec<Option<<$t as IsNone>::Inner>>| s.len() as i32)
                },
                Backend::OptOfArray1 => {
                    let v = arena.alloc(Array1::from_vec(data));
                    let o = arena.alloc(v.opt());
                    view_common(arena, o, op, |s: Vec<Option<<$t as IsNone>::Inner>>| s.len() as i32)
                },
                Backend::Sim => match op {
                    ViewOp::Titer => Ok(<$t>::wrap(S::de(SimSource::new(data)))),
                    _ => bad("sim source only offers titer"),
                },
                Backend::Polars { chunks } => polars_container::<$t>(arena, data, chunks, op),
                Backend::SimInput => {
                    let v = arena.alloc(SimVec::from_vec(data));
                    $view(arena, v, op, |s: &[$t]| s.len() as i32)
                },
            }
        }
    };
}

container_fn!(container_f64, f64, view_num);
container_fn!(container_i32, i32, view_num);
container_fn!(container_of64, Option<f64>, view_common);
container_fn!(container_oi32, Option<i32>, view_common);

#[cfg(not(feature = "polars"))]
fn polars_container<'a, T>(
    _arena: &'a Arena,
    _data: Vec<T>,
    _chunks: &[usize],
    _op: &ViewOp,
) -> Result<Stream<'a>, String> {
    bad("built without the polars feature")
}

#[cfg(feature = "polars")]
pub trait PolarsElem: Sized {
    fn build<'a>(arena: &'a Arena, data: Vec<Self>, chunks: &[usize], op: &ViewOp) -> Result<Stream<'a>, String>;
}

#[cfg(feature = "polars")]
mod pl {
    use tea_core::export::polars::prelude::*;

    use super::*;

    fn chunked<P: PolarsNumericType>(data: Vec<Option<P::Native>>, chunks: &[usize]) -> ChunkedArray<P> {
        let mut it = data.into_iter();
        let mut out: Option<ChunkedArray<P>> = None;
        let mut sizes: Vec<usize> = chunks.to_vec();
        sizes.push(usize::MAX);
        for sz in sizes {
            let part: Vec<Option<P::Native>> = it.by_ref().take(sz).collect();
            if part.is_empty() && out.is_some() {
                continue;
            }
            let ca: ChunkedArray<P> = part.into_iter().collect();
            match out.as_mut() {
                None => out = Some(ca),
                Some(o) => o.append(&ca).unwrap(),
            }
        }
        out.unwrap()
    }

    impl PolarsElem for Option<f64> {
        fn build<'a>(arena: &'a Arena, data: Vec<Self>, chunks: &[usize], op: &ViewOp) -> Result<Stream<'a>, String> {
            let v = arena.alloc(chunked::<Float64Type>(data, chunks));
            view_common(arena, v, op, |s: ChunkedArray<Float64Type>| s.len() as i32)
        }
    }
    impl PolarsElem for Option<i32> {
        fn build<'a>(arena: &'a Arena, data: Vec<Self>, chunks: &[usize], op: &ViewOp) -> Result<Stream<'a>, String> {
            let v = arena.alloc(chunked::<Int32Type>(data, chunks));
            view_common(arena, v, op, |s: ChunkedArray<Int32Type>| s.len() as i32)
        }
    }
    impl PolarsElem for f64 {
        fn build<'a>(_: &'a Arena, _: Vec<Self>, _: &[usize], _: &ViewOp) -> Result<Stream<'a>, String> {
            bad("polars columns hold options")
        }
    }
    impl PolarsElem for i32 {
        fn build<'a>(_: &'a Arena, _: Vec<Self>, _: &[usize], _: &ViewOp) -> Result<Stream<'a>, String> {
            bad("polars columns hold options")
        }
    }
}

#[cfg(feature = "polars")]
fn polars_container<'a, T: PolarsElem>(
    arena: &'a Arena,
    data: Vec<T>,
    chunks: &[usize],
    op: &ViewOp,
) -> Result<Stream<'a>, String> {
    T::build(arena, data, chunks, op)
}

fn container_trk<'a>(
    arena: &'a Arena,
    data: Vec<Tracked>,
    backend: &Backend,
    op: &ViewOp,
) -> Result<Stream<'a>, String> {
    if !matches!(op, ViewOp::Titer | ViewOp::TiterMap) {
        return bad("tracked items only flow through titer");
    }
    let map = matches!(op, ViewOp::TiterMap);
    macro_rules! go {
        ($v:expr) => {{
            let v = $v;
            if map { Stream::Trk(S::de(TIter::map(v, |x| x))) } else { Stream::Trk(S::de(v.titer())) }
        }};
    }
    Ok(match backend {
        Backend::Vec => go!(arena.alloc(data)),
        Backend::ArcVec => go!(arena.alloc(Arc::new(data))),
        Backend::SliceRef | Backend::SliceMut => return titer_only::<Tracked>(arena, data, backend, op),
        Backend::Deque { head } => go!(arena.alloc(make_deque(data, *head))),
        Backend::Array1 => go!(arena.alloc(Array1::from_vec(data))),
        Backend::Sim => Stream::Trk(S::de(SimSource::new(data))),
        _ => return bad("backend not available for tracked items"),
    })
}

fn err_item(pos: usize) -> TError {
    TError::Str(format!("E{pos}").into())
}

fn fallible_sim<'a, T: Elem>(p: &Pipe) -> S<'a, TResult<T>>
where
    TResult<T>: 'a,
{
    let items: Vec<TResult<T>> = p
        .data
        .iter()
        .enumerate()
        .map(|(i, v)| if p.errs.contains(&i) { Err(err_item(i)) } else { Ok(T::from_val(v)) })
        .collect();
    S::de(SimSource::new(items))
}

pub fn build_root<'a>(arena: &'a Arena, p: &Pipe) -> Result<Stream<'a>, String> {
    if p.fallible || !p.errs.is_empty() {
        if p.backend != Backend::Sim || p.root != ViewOp::Titer {
            return bad("error items need the sim source");
        }
        return Ok(match p.ty {
            Ty::F64 => Stream::RF64(fallible_sim(p)),
            Ty::I32 => Stream::RI32(fallible_sim(p)),
            Ty::OptF64 => Stream::ROF64(fallible_sim(p)),
            Ty::OptI32 => Stream::ROI32(fallible_sim(p)),
            Ty::Trk => Stream::RTrk(fallible_sim(p)),
        });
    }
    fn conv<T: Elem>(d: &[Val]) -> Vec<T> {
        d.iter().map(T::from_val).collect()
    }
    match p.ty {
        Ty::F64 => container_f64(arena, conv(&p.data), &p.backend, &p.root),
        Ty::I32 => container_i32(arena, conv(&p.data), &p.backend, &p.root),
        Ty::OptF64 => container_of64(arena, conv(&p.data), &p.backend, &p.root),
        Ty::OptI32 => container_oi32(arena, conv(&p.data), &p.backend, &p.root),
        Ty::Trk => container_trk(arena, conv(&p.data), &p.backend, &p.root),
    }
}

// ---------------------------------------------------------------------------------------
// iterator-level stages

fn safe_collect<'a, T: 'a>(mut s: S<'a, T>) -> Vec<T> {
    let mut out = Vec::new();
    while let Some(v) = s.next() {
        out.push(v);
        if out.len() > DRAIN_LIMIT {
            break;
        }
    }
    out
}

fn stage_common<'a, T>(s: S<'a, T>, st: &Stage) -> Result<S<'a, T>, String>
where
    T: Elem + IsNone + 'a,
    T::Inner: Number,
{
    Ok(match st {
        Stage::VAbs => S::fw(s.into_fw().vabs()),
        Stage::Shift { n, v } => S::fw(s.into_fw().shift(*n, T::from_val(v))),
        Stage::VShift { n, fill } => S::fw(s.into_fw().vshift(*n, fill.as_ref().map(T::from_val))),
        Stage::FFill { fill, mask } => {
            let v = fill.as_ref().map(T::from_val);
            // a flagged item with nothing to fill from becomes T::none(), which i32 does not have (the
            // library panics by design, outside the property): such a stage runs with the default mask
            let mask = if v.is_none() && matches!(T::TY, Ty::I32) { &0 } else { mask };
            match mask {
                0 => S::fw(s.into_fw().ffill(v)),
                1 => S::fw(s.into_fw().ffill_mask(|_| true, v)),
                _ => S::fw(s.into_fw().ffill_mask(|x| !x.is_none(), v)),
            }
        }
        Stage::BFill { fill, mask } => match s {
            S::De(d) => {
                let v = fill.as_ref().map(T::from_val);
                let mask = if v.is_none() && matches!(T::TY, Ty::I32) { &0 } else { mask };
                match mask {
                    0 => S::fw(d.bfill(v)),
                    1 => S::fw(d.bfill_mask(|_| true, v)),
                    _ => S::fw(d.bfill_mask(|x| !x.is_none(), v)),
                }
            }
            _ => return bad("bfill needs a double-ended stream"),
        },
        Stage::Fill { v } => S::fw(s.into_fw().fill(T::from_val(v))),
        Stage::VClip { lo, hi } => S::fw(s.into_fw().vclip(T::from_val(lo), T::from_val(hi))),
        Stage::Rev => match s {
            S::De(d) => S::de(d.rev()),
            _ => return bad("rev needs a double-ended stream"),
        },
        Stage::MapId => match s {
            S::De(d) => S::de(d.map(|x| x)),
            S::Fw(f) => S::fw(f.map(|x| x)),
            S::Pl(p) => S::Pl(Box::new(p.map(|x| x))),
        },
        Stage::Take { k } => S::fw(s.into_fw().take(*k)),
        Stage::StepBy { k } => S::fw(s.into_fw().step_by((*k).max(1))),
        _ => return bad(format!("stage {} not available here", st.kind())),
    })
}

macro_rules! stage_fn {
    ($name:ident, $t:ty, $container:ident, $abs:expr) => {
        fn $name<'a>(arena: &'a Arena, s: S<'a, $t>, st: &Stage) -> Result<Stream<'a>, String> {
            Ok(match st {
                Stage::Abs => {
                    let f: fn(S<'a, $t>) -> Result<S<'a, $t>, String> = $abs;
                    <$t>::wrap(f(s)?)
                },
                Stage::Remat { backend, op } => {
                    let data = safe_collect(s);
                    return $container(arena, data, backend, op);
                },
                Stage::VCut { bins, labels, right, add_bounds } => {
                    let bins: &'a Vec<$t> = arena.alloc(bins.iter().map(<$t>::from_val).collect());
                    let labels: &'a Vec<$t> = arena.alloc(labels.iter().map(<$t>::from_val).collect());
                    match s.into_fw().vcut(bins, labels, *right, *add_bounds) {
                        Ok(it) => <TResult<$t>>::wrap(S::fw(it)),
                        Err(e) => return Err(format!("DOCUMENTED-ERR: {e}")),
                    }
                },
                _ => <$t>::wrap(stage_common(s, st)?),
            })
        }
    };
}

fn abs_num<'a, T: Elem + Number + 'a>(s: S<'a, T>) -> Result<S<'a, T>, String> {
    Ok(S::fw(s.into_fw().abs()))
}
fn abs_na<'a, T>(_: S<'a, T>) -> Result<S<'a, T>, String> {
    bad("abs needs a number type")
}

stage_fn!(stage_f64, f64, container_f64, abs_num::<f64>);
stage_fn!(stage_i32, i32, container_i32, abs_num::<i32>);
stage_fn!(stage_of64, Option<f64>, container_of64, abs_na::<Option<f64>>);
stage_fn!(stage_oi32, Option<i32>, container_oi32, abs_na::<Option<i32>>);

fn loosen<'a, T: 'a>(s: S<'a, T>, m: usize) -> S<'a, T> {
    if m == 0 {
        // honest iterator that knows nothing about its length: size hint (0, None)
        let mut it = s.into_plain();
        return S::Pl(Box::new(std::iter::from_fn(move || it.next())));
    }
    let m = m.max(2);
    let mut i = 0usize;
    S::Pl(Box::new(s.into_plain().filter(move |_| {
        i += 1;
        i % m != 0
    })))
}

fn scanned<'a, T: 'a>(s: S<'a, T>) -> S<'a, T> {
    S::fw(s.into_fw().scan(0usize, |seen, x| {
        *seen += 1;
        Some(x)
    }))
}

fn trusted_with<'a, T: 'a>(s: S<'a, T>, len: usize) -> S<'a, T> {
    match s {
        S::De(d) => S::de(d.to_trust(len)),
        S::Fw(f) => S::fw(f.to_trust(len)),
        S::Pl(p) => S::fw(p.to_trust(len)),
    }
}

macro_rules! each_variant {
    ($s:expr, $x:ident => $e:expr) => {
        match $s {
            Stream::F64($x) => Stream::F64($e),
            Stream::I32($x) => Stream::I32($e),
            Stream::OF64($x) => Stream::OF64($e),
            Stream::OI32($x) => Stream::OI32($e),
            Stream::Trk($x) => Stream::Trk($e),
            Stream::RF64($x) => Stream::RF64($e),
            Stream::RI32($x) => Stream::RI32($e),
            Stream::ROF64($x) => Stream::ROF64($e),
            Stream::ROI32($x) => Stream::ROI32($e),
            Stream::RTrk($x) => Stream::RTrk($e),
        }
    };
}

/// `len_left`: the number of items really left in `s` (resolved beforehand by a probe), used
/// by `to_trust`
pub fn apply_stage<'a>(
    arena: &'a Arena,
    s: Stream<'a>,
    st: &Stage,
    len_left: Option<usize>,
) -> Result<Stream<'a>, String> {
    if let Stage::ToTrust = st {
        let Some(n) = len_left else { return bad("to_trust without a resolved length") };
        return Ok(each_variant!(s, x => trusted_with(x, n)));
    }
    if s.is_plain() && !matches!(st, Stage::MapId | Stage::Loose { .. }) {
        return bad("only map applies to an untrusted stream");
    }
    if let Stage::Scan = st {
        return Ok(each_variant!(s, x => scanned(x)));
    }
    if let Stage::Loose { m } = st {
        return Ok(match s {
            Stream::F64(s) => Stream::F64(loosen(s, *m)),
            Stream::I32(s) => Stream::I32(loosen(s, *m)),
            Stream::OF64(s) => Stream::OF64(loosen(s, *m)),
            Stream::OI32(s) => Stream::OI32(loosen(s, *m)),
            Stream::Trk(s) => Stream::Trk(loosen(s, *m)),
            Stream::RF64(s) => Stream::RF64(loosen(s, *m)),
            Stream::RI32(s) => Stream::RI32(loosen(s, *m)),
            Stream::ROF64(s) => Stream::ROF64(loosen(s, *m)),
            Stream::ROI32(s) => Stream::ROI32(loosen(s, *m)),
            Stream::RTrk(s) => Stream::RTrk(loosen(s, *m)),
        });
    }
    match s {
        Stream::F64(s) => stage_f64(arena, s, st),
        Stream::I32(s) => stage_i32(arena, s, st),
        Stream::OF64(s) => stage_of64(arena, s, st),
        Stream::OI32(s) => stage_oi32(arena, s, st),
        Stream::Trk(s) => Ok(Stream::Trk(match st {
            Stage::Rev => match s {
                S::De(d) => S::de(d.rev()),
                _ => return bad("rev needs a double-ended stream"),
            },
            Stage::MapId => match s {
                S::De(d) => S::de(d.map(|x| x)),
                S::Fw(f) => S::fw(f.map(|x| x)),
                S::Pl(p) => S::Pl(Box::new(p.map(|x| x))),
            },
            Stage::Take { k } => S::fw(s.into_fw().take(*k)),
            Stage::StepBy { k } => S::fw(s.into_fw().step_by((*k).max(1))),
            Stage::Shift { n, v } => S::fw(s.into_fw().shift(*n, Tracked::from_val(v))),
            Stage::VShift { n, fill } => S::fw(s.into_fw().vshift(*n, fill.as_ref().map(Tracked::from_val))),
            Stage::FFill { fill, mask } => {
            let v = fill.as_ref().map(Tracked::from_val);
            match mask {
                0 => S::fw(s.into_fw().ffill(v)),
                1 => S::fw(s.into_fw().ffill_mask(|_| true, v)),
                _ => S::fw(s.into_fw().ffill_mask(|x| !x.is_none(), v)),
            }
        }
            Stage::BFill { fill, mask } => match s {
                S::De(d) => {
                let v = fill.as_ref().map(Tracked::from_val);
                match mask {
                    0 => S::fw(d.bfill(v)),
                    1 => S::fw(d.bfill_mask(|_| true, v)),
                    _ => S::fw(d.bfill_mask(|x| !x.is_none(), v)),
                }
            }
                _ => return bad("bfill needs a double-ended stream"),
            },
            Stage::Fill { v } => S::fw(s.into_fw().fill(Tracked::from_val(v))),
            _ => return bad("stage not available for tracked items"),
        })),
        other => {
            // streams of TResult items: only the std glue applies
            macro_rules! res_stage {
                ($s:expr, $v:ident) => {
                    Ok(Stream::$v(match st {
                        Stage::MapId => match $s {
                            S::De(d) => S::de(d.map(|x| x)),
                            S::Fw(f) => S::fw(f.map(|x| x)),
                            S::Pl(p) => S::Pl(Box::new(p.map(|x| x))),
                        },
                        Stage::Rev => match $s {
                            S::De(d) => S::de(d.rev()),
                            _ => return bad("rev needs a double-ended stream"),
                        },
                        Stage::Take { k } => S::fw($s.into_fw().take(*k)),
                        Stage::StepBy { k } => S::fw($s.into_fw().step_by((*k).max(1))),
                        _ => return bad("stage not available for fallible streams"),
                    }))
                };
            }
            match other {
                Stream::RF64(s) => res_stage!(s, RF64),
                Stream::RI32(s) => res_stage!(s, RI32),
                Stream::ROF64(s) => res_stage!(s, ROF64),
                Stream::ROI32(s) => res_stage!(s, ROI32),
                Stream::RTrk(s) => res_stage!(s, RTrk),
                _ => unreachable!(),
            }
        },
    }
}

// ---------------------------------------------------------------------------------------
// running the consumer script

/// Build the root and replay `ops[..upto]`. Items pulled on the way are appended to `pulled`.
/// For every `to_trust` step before `upto`: the number of items really left at that point,
/// measured by a (nested) probe of the truncated program. Must run before the caller resets
/// the run-local registries.
pub fn resolve_lens(p: &Pipe, upto: usize) -> Result<Vec<Option<usize>>, String> {
    let mut lens = vec![None; p.ops.len()];
    for i in 0..upto {
        if matches!(p.ops[i], Op::Wrap(Stage::ToTrust)) {
            let o = probe(p, i)?;
            if o.capped {
                return Err("DOCUMENTED-ERR: stream too long to declare its length".into());
            }
            lens[i] = Some(o.drained.len());
        }
    }
    Ok(lens)
}

pub fn replay<'a>(
    arena: &'a Arena,
    p: &Pipe,
    upto: usize,
    lens: &[Option<usize>],
    pulled: &mut Vec<Option<Obs>>,
) -> Result<Stream<'a>, String> {
    let mut s = build_root(arena, p)?;
    for (i, op) in p.ops[..upto].iter().enumerate() {
        match op {
            Op::Next => pulled.push(s.next_obs()),
            Op::NextBack => {
                if !s.is_de() {
                    return bad("next_back on a forward-only stream");
                }
                pulled.push(s.next_back_obs())
            },
            Op::Nth(k) => pulled.push(s.nth_obs(*k)),
            Op::NthBack(k) => {
                if !s.is_de() {
                    return bad("nth_back on a forward-only stream");
                }
                pulled.push(s.nth_back_obs(*k))
            },
            Op::Wrap(st) => s = apply_stage(arena, s, st, lens.get(i).copied().flatten())?,
        }
    }
    Ok(s)
}

#[derive(Clone, Debug)]
pub struct ProbeOut {
    pub hint: (usize, Option<usize>),
    /// `TrustedLen::len()` read at the same moment
    pub tl_len: Option<usize>,
    pub drained: Vec<Obs>,
    pub capped: bool,
    pub pulled: Vec<Option<Obs>>,
    pub float: bool,
    pub de: bool,
    pub res: bool,
    /// the stream is an untrusted iterator: its size hint is allowed to be loose
    pub plain: bool,
    pub sim_pulls: u64,
}

/// Replay `ops[..cut]`, read the hint, then count the rest by plain safe iteration.
/// `Err` carries the panic message (or a HARNESS / DOCUMENTED-ERR marker).
pub fn probe(p: &Pipe, cut: usize) -> Result<ProbeOut, String> {
    probe_dir(p, cut, false)
}

/// like `probe`, but what is left is counted by `next_back()` (double-ended streams only)
pub fn probe_back(p: &Pipe, cut: usize) -> Result<ProbeOut, String> {
    probe_dir(p, cut, true)
}

fn probe_dir(p: &Pipe, cut: usize, from_back: bool) -> Result<ProbeOut, String> {
    let lens = resolve_lens(p, cut)?;
    trk_reset();
    SIM_PULLS.with(|c| c.set(0));
    let r = guarded(|| {
        let arena = Arena::new();
        let mut pulled = Vec::new();
        let out = match replay(&arena, p, cut, &lens, &mut pulled) {
            Err(e) => Err(e),
            Ok(mut s) => {
                let hint = s.size_hint();
                let tl_len = s.tl_len();
                let cap = hint.1.unwrap_or(DRAIN_LIMIT).min(DRAIN_LIMIT).saturating_add(16);
                let (float, de, res, plain) = (s.is_float(), s.is_de(), s.is_res(), s.is_plain());
                let (drained, capped) = if from_back && de { s.drain_back(cap) } else { s.drain(cap) };
                drop(s);
                Ok(ProbeOut {
                    hint,
                    tl_len,
                    drained,
                    capped,
                    pulled,
                    float,
                    de,
                    res,
                    plain,
                    sim_pulls: SIM_PULLS.with(|c| c.get()),
                })
            },
        };
        drop(arena);
        out
    });
    let _ = sim_log_take();
    match r {
        Ok(x) => x,
        Err(panic_msg) => Err(panic_msg),
    }
}

// ---------------------------------------------------------------------------------------
// sinks

#[derive(Clone, Debug)]
pub enum SinkOut {
    /// content of the returned container
    Seq(Vec<Obs>),
    /// fallible collect: content or the error message
    Res(Result<Vec<Obs>, String>),
    /// buffer write: the `TResult` of `write`, the slots afterwards (sentinel = untouched for
    /// real buffers, None = never written for the simulator-owned buffer), the uset log
    Buf {
        result: Result<(), String>,
        slots: Vec<Option<Obs>>,
        log: Option<Vec<usize>>,
        oob: Vec<usize>,
        twice: Vec<usize>,
        /// results of `UninitVec::set` calls (owned-vec sink only)
        set_results: Vec<bool>,
    },
    Dropped,
    Drained(Vec<Obs>),
    Counted(usize),
    Last(Option<Obs>),
}

#[derive(Debug)]
pub struct CommitOut {
    pub sink: SinkOut,
    pub sim: SimLog,
    pub double_drops: Vec<u64>,
    /// instance ids in the returned container that were not live
    pub dead_in_result: Vec<u64>,
    pub trk_created: u64,
    pub trk_leaked: u64,
}

fn obs_vec<'x, T: Obsable + 'x>(it: impl Iterator<Item = &'x T>) -> Vec<Obs> {
    it.map(|v| v.obs()).collect()
}

fn dead_instances(obs: &[Obs]) -> Vec<u64> {
    obs.iter()
        .filter_map(|o| match o {
            Obs::T(_, inst) if !trk_is_live(*inst) => Some(*inst),
            _ => None,
        })
        .collect()
}

struct SinkRes {
    out: SinkOut,
    dead: Vec<u64>,
}

fn collect_into<'a, T>(s: S<'a, T>, c: Container, how: u8, remaining: usize) -> Result<SinkRes, String>
where
    T: Elem + 'a,
{
    // how: 0 trusted, 1 plain, 2 with_len
    let it = s.into_fw();
    macro_rules! go {
        ($c:ty, $obs:expr) => {{
            let r: $c = match how {
                0 => it.collect_trusted_vec1(),
                1 => it.collect_vec1(),
                _ => it.collect_vec1_with_len(remaining),
            };
            let f: fn(&$c) -> Vec<Obs> = $obs;
            let o = f(&r);
            let dead = dead_instances(&o);
            drop(r);
            Ok(SinkRes { out: SinkOut::Seq(o), dead })
        }};
    }
    match c {
        Container::Vec => go!(Vec<T>, |r| obs_vec(r.iter())),
        Container::Deque => go!(VecDeque<T>, |r| obs_vec(r.iter())),
        Container::Array1 => go!(Array1<T>, |r| obs_vec(r.iter())),
        Container::Sim => go!(SimVec<T>, |r| obs_vec(r.items.iter())),
        Container::Plain => go!(PlainVec<T>, |r| obs_vec(r.items.iter())),
        Container::Polars => bad("polars container handled separately"),
    }
}

fn try_collect_into<'a, T>(s: S<'a, TResult<T>>, c: Container, trusted: bool) -> Result<SinkRes, String>
where
    T: Elem + IsNone + std::fmt::Debug + 'a,
{
    let it = s.into_fw();
    macro_rules! go {
        ($c:ty, $obs:expr) => {{
            let r: TResult<$c> = if trusted { it.try_collect_trusted_vec1() } else { it.try_collect_vec1() };
            let f: fn(&$c) -> Vec<Obs> = $obs;
            match r {
                Ok(r) => {
                    let o = f(&r);
                    let dead = dead_instances(&o);
                    Ok(SinkRes { out: SinkOut::Res(Ok(o)), dead })
                },
                Err(e) => Ok(SinkRes { out: SinkOut::Res(Err(e.to_string())), dead: vec![] }),
            }
        }};
    }
    match c {
        Container::Vec => go!(Vec<T>, |r| obs_vec(r.iter())),
        Container::Deque => go!(VecDeque<T>, |r| obs_vec(r.iter())),
        Container::Array1 => go!(Array1<T>, |r| obs_vec(r.iter())),
        Container::Sim => go!(SimVec<T>, |r| obs_vec(r.items.iter())),
        Container::Plain => go!(PlainVec<T>, |r| obs_vec(r.items.iter())),
        Container::Polars => bad("polars container handled separately"),
    }
}

fn try_to_vec<'a, T: Elem + 'a>(s: S<'a, TResult<T>>) -> Result<SinkRes, String> {
    let r: Result<Vec<T>, TError> = s.into_fw().try_collect_trusted_to_vec();
    Ok(match r {
        Ok(r) => {
            let o = obs_vec(r.iter());
            let dead = dead_instances(&o);
            SinkRes { out: SinkOut::Res(Ok(o)), dead }
        },
        Err(e) => SinkRes { out: SinkOut::Res(Err(e.to_string())), dead: vec![] },
    })
}

fn write_into<'a, T: Elem + 'a>(s: S<'a, T>, buf: BufKind, len: usize, slack: usize) -> Result<SinkRes, String> {
    use std::mem::MaybeUninit;
    let it = s.into_fw();
    let mk = |result: TResult<()>, slots: Vec<Option<Obs>>| {
        let flat: Vec<Obs> = slots.iter().flatten().cloned().collect();
        let dead = dead_instances(&flat);
        SinkRes {
            out: SinkOut::Buf {
                result: result.map_err(|e| e.to_string()),
                slots,
                log: None,
                oob: vec![],
                twice: vec![],
                set_results: vec![],
            },
            dead,
        }
    };
    Ok(match buf {
        BufKind::Slice => {
            let mut u: Vec<MaybeUninit<T>> = <Vec<T> as Vec1<T>>::uninit(len);
            // the caller's buffer is an ordinary Vec: it may own more capacity than length
            u.reserve_exact(slack);
            if u.len() != len {
                return Err(format!("Vec::uninit({len}) has length {}", u.len()));
            }
            for slot in u.iter_mut() {
                slot.write(T::sentinel());
            }
            let res = {
                let mut r = <Vec<T> as Vec1<T>>::uninit_ref_mut(&mut u);
                it.write(&mut r)
            };
            let v: Vec<T> = unsafe { UninitVec::assume_init(u) };
            mk(res, v.iter().map(|x| Some(x.obs())).collect())
        },
        BufKind::Deque => {
            let mut u: VecDeque<MaybeUninit<T>> = <VecDeque<T> as Vec1<T>>::uninit(len);
            // a reused ring buffer: cycling it moves the head, so the storage is physically wrapped
            for _ in 0..(if len > 1 { slack % len } else { 0 }) {
                if let Some(x) = u.pop_front() {
                    u.push_back(x);
                }
            }
            if u.len() != len {
                return Err(format!("VecDeque::uninit({len}) has length {}", u.len()));
            }
            for slot in u.iter_mut() {
                slot.write(T::sentinel());
            }
            let res = {
                let mut r = <VecDeque<T> as Vec1<T>>::uninit_ref_mut(&mut u);
                it.write(&mut r)
            };
            let v: VecDeque<T> = unsafe { UninitVec::assume_init(u) };
            mk(res, v.iter().map(|x| Some(x.obs())).collect())
        },
        BufKind::NdView => {
            let mut u: Array1<MaybeUninit<T>> = <Array1<T> as Vec1<T>>::uninit(len);
            if u.len() != len {
                return Err(format!("Array1::uninit({len}) has length {}", u.len()));
            }
            for slot in u.iter_mut() {
                slot.write(T::sentinel());
            }
            let res = {
                let mut r = <Array1<T> as Vec1<T>>::uninit_ref_mut(&mut u);
                it.write(&mut r)
            };
            let v: Array1<T> = unsafe { UninitVec::assume_init(u) };
            mk(res, v.iter().map(|x| Some(x.obs())).collect())
        },
        BufKind::SubSlice => {
            // the caller's buffer is the middle of a larger allocation: the slots before and
            // after it must stay untouched
            let mut big: Vec<MaybeUninit<T>> = <Vec<T> as Vec1<T>>::uninit(len + 2 + slack);
            for slot in big.iter_mut() {
                slot.write(T::sentinel());
            }
            let res = {
                let mut r: &mut [MaybeUninit<T>] = &mut big[1..1 + len];
                it.write(&mut r)
            };
            let v: Vec<T> = unsafe { UninitVec::assume_init(big) };
            let mut slots: Vec<Option<Obs>> = v[1..1 + len].iter().map(|x| Some(x.obs())).collect();
            for (i, x) in v.iter().enumerate() {
                if i == 0 || i > len {
                    let o = x.obs();
                    let untouched = match &o {
                        Obs::B(b) => *b == F64_SENTINEL_BITS || *b == (I32_SENTINEL as i64 as u64),
                        Obs::T(origin, _) => *origin == -999,
                        _ => false,
                    };
                    if !untouched {
                        slots.push(Some(o));
                    }
                }
            }
            mk(res, slots)
        },
        BufKind::NdReversed => {
            // the caller's view runs backwards through its storage: slot i of the view is the
            // (len-1-i)-th element in memory
            let mut parent: Array1<MaybeUninit<T>> = <Array1<T> as Vec1<T>>::uninit(len);
            for slot in parent.iter_mut() {
                slot.write(T::sentinel());
            }
            let res = {
                let mut r = parent.slice_mut(s![..;-1]);
                it.write(&mut r)
            };
            let v: Array1<T> = unsafe { UninitVec::assume_init(parent) };
            let slots: Vec<Option<Obs>> = v.slice(s![..;-1]).iter().map(|x| Some(x.obs())).collect();
            mk(res, slots)
        },
        BufKind::NdStrided => {
            // every second slot of a larger uninitialised buffer; the slots in between must
            // stay untouched
            let mut parent: Array1<MaybeUninit<T>> = <Array1<T> as Vec1<T>>::uninit(len * 2);
            for slot in parent.iter_mut() {
                slot.write(T::sentinel());
            }
            let res = {
                let mut r = parent.slice_mut(s![..;2]);
                if r.len() != len {
                    return bad("strided buffer has wrong length");
                }
                it.write(&mut r)
            };
            let v: Array1<T> = unsafe { UninitVec::assume_init(parent) };
            let mut slots: Vec<Option<Obs>> = v.iter().step_by(2).map(|x| Some(x.obs())).collect();
            // a neighbour that was written shows up as an extra, non-sentinel slot
            for (i, x) in v.iter().enumerate() {
                if i % 2 == 1 {
                    let o = x.obs();
                    let untouched = match &o {
                        Obs::B(b) => *b == F64_SENTINEL_BITS || *b == (I32_SENTINEL as i64 as u64),
                        Obs::T(origin, _) => *origin == -999,
                        _ => false,
                    };
                    if !untouched {
                        slots.push(Some(o));
                    }
                }
            }
            mk(res, slots)
        },
        BufKind::Sim => {
            let mut u: SimUninit<T> = <SimVec<T> as Vec1<T>>::uninit(len);
            let res = {
                let mut r = <SimVec<T> as Vec1<T>>::uninit_ref_mut(&mut u);
                it.write(&mut r)
            };
            let slots: Vec<Option<Obs>> = u.slots.iter().map(|s| s.as_ref().map(|x| x.obs())).collect();
            let flat: Vec<Obs> = slots.iter().flatten().cloned().collect();
            let dead = dead_instances(&flat);
            SinkRes {
                out: SinkOut::Buf {
                    result: res.map_err(|e| e.to_string()),
                    slots,
                    log: Some(u.log.clone()),
                    oob: u.oob.clone(),
                    twice: u.twice.clone(),
                    set_results: vec![],
                },
                dead,
            }
        },
        BufKind::OwnedVec => {
            // UninitVec::set (bounds-checked) item by item, then assume_init
            let mut u: Vec<MaybeUninit<T>> = <Vec<T> as Vec1<T>>::uninit(len);
            u.reserve_exact(slack);
            for slot in u.iter_mut() {
                slot.write(T::sentinel());
            }
            let mut set_results = vec![];
            for (i, v) in it.enumerate() {
                set_results.push(UninitVec::set(&mut u, i, v).is_ok());
                if i > DRAIN_LIMIT {
                    break;
                }
            }
            let v: Vec<T> = unsafe { UninitVec::assume_init(u) };
            let slots: Vec<Option<Obs>> = v.iter().map(|x| Some(x.obs())).collect();
            let flat: Vec<Obs> = slots.iter().flatten().cloned().collect();
            let dead = dead_instances(&flat);
            SinkRes {
                out: SinkOut::Buf { result: Ok(()), slots, log: None, oob: vec![], twice: vec![], set_results },
                dead,
            }
        },
    })
}

fn sink_value<'a, T: Elem + 'a>(s: S<'a, T>, sink: &Sink, remaining: usize) -> Result<SinkRes, String> {
    match sink {
        Sink::TrustedToVec => {
            let v: Vec<T> = s.into_fw().collect_trusted_to_vec();
            let o = obs_vec(v.iter());
            let dead = dead_instances(&o);
            Ok(SinkRes { out: SinkOut::Seq(o), dead })
        },
        Sink::TrustedVec1(c) => collect_into(s, *c, 0, remaining),
        Sink::PlainVec1(c) => collect_into(s, *c, 1, remaining),
        Sink::WithLen(c) => collect_into(s, *c, 2, remaining),
        Sink::Write { buf, len, slack } => write_into(s, *buf, *len, *slack),
        _ => bad(format!("sink {} not available for a value stream", sink.kind())),
    }
}

fn sink_res<'a, T>(s: S<'a, TResult<T>>, sink: &Sink) -> Result<SinkRes, String>
where
    T: Elem + IsNone + std::fmt::Debug + 'a,
{
    match sink {
        Sink::TryTrustedToVec => try_to_vec(s),
        Sink::TryTrusted(c) => try_collect_into(s, *c, true),
        Sink::TryPlain(c) => try_collect_into(s, *c, false),
        _ => bad(format!("sink {} not available for a fallible stream", sink.kind())),
    }
}

fn opt_collect<'a, T>(s: S<'a, Option<T>>, c: Container) -> Result<SinkRes, String>
where
    T: Elem + IsNone + 'a,
{
    let it = s.into_fw();
    let o = match c {
        Container::Vec => obs_vec(it.collect_vec1_opt::<Vec<T>>().iter()),
        Container::Deque => obs_vec(it.collect_vec1_opt::<VecDeque<T>>().iter()),
        Container::Array1 => obs_vec(it.collect_vec1_opt::<Array1<T>>().iter()),
        Container::Sim => obs_vec(it.collect_vec1_opt::<SimVec<T>>().items.iter()),
        Container::Plain => obs_vec(it.collect_vec1_opt::<PlainVec<T>>().items.iter()),
        Container::Polars => return bad("polars container handled separately"),
    };
    Ok(SinkRes { out: SinkOut::Seq(o), dead: vec![] })
}

#[cfg(feature = "polars")]
fn polars_sink<'a>(s: Stream<'a>, sink: &Sink, remaining: usize) -> Result<SinkRes, String> {
    use tea_core::export::polars::prelude::*;
    fn seq<P: PolarsNumericType>(ca: &ChunkedArray<P>) -> Vec<Obs>
    where
        P::Native: Obsable,
    {
        ca.into_iter().map(|v| v.obs()).collect()
    }
    macro_rules! val {
        ($s:expr, $p:ty) => {{
            let it = $s.into_fw();
            let r: ChunkedArray<$p> = match sink {
                Sink::TrustedVec1(_) => it.collect_trusted_vec1(),
                Sink::PlainVec1(_) => it.collect_vec1(),
                Sink::WithLen(_) => it.collect_vec1_with_len(remaining),
                _ => return bad("sink not available for polars"),
            };
            Ok(SinkRes { out: SinkOut::Seq(seq(&r)), dead: vec![] })
        }};
    }
    macro_rules! res {
        ($s:expr, $p:ty) => {{
            let it = $s.into_fw();
            let r: TResult<ChunkedArray<$p>> = match sink {
                Sink::TryTrusted(_) => it.try_collect_trusted_vec1(),
                Sink::TryPlain(_) => it.try_collect_vec1(),
                _ => return bad("sink not available for polars"),
            };
            Ok(SinkRes { out: SinkOut::Res(r.map(|r| seq(&r)).map_err(|e| e.to_string())), dead: vec![] })
        }};
    }
    match s {
        Stream::OF64(s) => val!(s, Float64Type),
        Stream::OI32(s) => val!(s, Int32Type),
        Stream::ROF64(s) => res!(s, Float64Type),
        Stream::ROI32(s) => res!(s, Int32Type),
        _ => bad("polars columns hold options"),
    }
}

#[cfg(not(feature = "polars"))]
fn polars_sink<'a>(_: Stream<'a>, _: &Sink, _: usize) -> Result<SinkRes, String> {
    bad("built without the polars feature")
}

fn sink_container(sink: &Sink) -> Option<Container> {
    match sink {
        Sink::TrustedVec1(c)
        | Sink::PlainVec1(c)
        | Sink::WithLen(c)
        | Sink::OptCollect(c)
        | Sink::TryTrusted(c)
        | Sink::TryPlain(c) => Some(*c),
        _ => None,
    }
}

fn plain_value<'a, T: Elem + 'a>(s: S<'a, T>, sink: &Sink, remaining: usize) -> Result<SinkRes, String> {
    let it = s.into_plain();
    macro_rules! go {
        ($c:ty, $obs:expr) => {{
            let r: $c = match sink {
                Sink::PlainVec1(_) => it.collect_vec1(),
                Sink::WithLen(_) => it.collect_vec1_with_len(remaining),
                _ => return bad("sink not available for an untrusted stream"),
            };
            let f: fn(&$c) -> Vec<Obs> = $obs;
            let o = f(&r);
            let dead = dead_instances(&o);
            drop(r);
            Ok(SinkRes { out: SinkOut::Seq(o), dead })
        }};
    }
    match sink_container(sink) {
        Some(Container::Vec) => go!(Vec<T>, |r| obs_vec(r.iter())),
        Some(Container::Deque) => go!(VecDeque<T>, |r| obs_vec(r.iter())),
        Some(Container::Array1) => go!(Array1<T>, |r| obs_vec(r.iter())),
        Some(Container::Sim) => go!(SimVec<T>, |r| obs_vec(r.items.iter())),
        Some(Container::Plain) => go!(PlainVec<T>, |r| obs_vec(r.items.iter())),
        _ => bad("container not available for an untrusted stream"),
    }
}

fn plain_res<'a, T>(s: S<'a, TResult<T>>, sink: &Sink) -> Result<SinkRes, String>
where
    T: Elem + IsNone + std::fmt::Debug + 'a,
{
    let it = s.into_plain();
    macro_rules! go {
        ($c:ty, $obs:expr) => {{
            let r: TResult<$c> = it.try_collect_vec1();
            let f: fn(&$c) -> Vec<Obs> = $obs;
            match r {
                Ok(r) => Ok(SinkRes { out: SinkOut::Res(Ok(f(&r))), dead: vec![] }),
                Err(e) => Ok(SinkRes { out: SinkOut::Res(Err(e.to_string())), dead: vec![] }),
            }
        }};
    }
    match sink {
        Sink::TryPlain(Container::Vec) => go!(Vec<T>, |r| obs_vec(r.iter())),
        Sink::TryPlain(Container::Deque) => go!(VecDeque<T>, |r| obs_vec(r.iter())),
        Sink::TryPlain(Container::Array1) => go!(Array1<T>, |r| obs_vec(r.iter())),
        Sink::TryPlain(Container::Sim) => go!(SimVec<T>, |r| obs_vec(r.items.iter())),
        Sink::TryPlain(Container::Plain) => go!(PlainVec<T>, |r| obs_vec(r.items.iter())),
        _ => bad("sink not available for an untrusted fallible stream"),
    }
}

fn plain_opt<'a, T>(s: S<'a, Option<T>>, c: Container) -> Result<SinkRes, String>
where
    T: Elem + IsNone + 'a,
{
    let it = s.into_plain();
    let o = match c {
        Container::Vec => obs_vec(it.collect_vec1_opt::<Vec<T>>().iter()),
        Container::Deque => obs_vec(it.collect_vec1_opt::<VecDeque<T>>().iter()),
        Container::Array1 => obs_vec(it.collect_vec1_opt::<Array1<T>>().iter()),
        Container::Sim => obs_vec(it.collect_vec1_opt::<SimVec<T>>().items.iter()),
        Container::Plain => obs_vec(it.collect_vec1_opt::<PlainVec<T>>().items.iter()),
        Container::Polars => return bad("polars container handled separately"),
    };
    Ok(SinkRes { out: SinkOut::Seq(o), dead: vec![] })
}

fn run_plain_sink<'a>(s: Stream<'a>, sink: &Sink, remaining: usize) -> Result<SinkRes, String> {
    if let Sink::OptCollect(c) = sink {
        return match s {
            Stream::OF64(s) => plain_opt(s, *c),
            Stream::OI32(s) => plain_opt(s, *c),
            _ => bad("collect_vec1_opt is exercised on Option<f64> / Option<i32> streams"),
        };
    }
    match s {
        Stream::F64(s) => plain_value(s, sink, remaining),
        Stream::I32(s) => plain_value(s, sink, remaining),
        Stream::OF64(s) => plain_value(s, sink, remaining),
        Stream::OI32(s) => plain_value(s, sink, remaining),
        Stream::Trk(s) => plain_value(s, sink, remaining),
        Stream::RF64(s) => plain_res(s, sink),
        Stream::RI32(s) => plain_res(s, sink),
        Stream::ROF64(s) => plain_res(s, sink),
        Stream::ROI32(s) => plain_res(s, sink),
        Stream::RTrk(_) => bad("tracked fallible streams only go to try_collect_trusted_to_vec"),
    }
}

fn run_sink<'a>(s: Stream<'a>, sink: &Sink, remaining: usize) -> Result<SinkRes, String> {
    if s.is_plain() {
        return run_plain_sink(s, sink, remaining);
    }
    if sink_container(sink) == Some(Container::Polars) {
        return polars_sink(s, sink, remaining);
    }
    if let Sink::OptCollect(c) = sink {
        return match s {
            Stream::OF64(s) => opt_collect(s, *c),
            Stream::OI32(s) => opt_collect(s, *c),
            _ => bad("collect_vec1_opt is exercised on Option<f64> / Option<i32> streams"),
        };
    }
    match s {
        Stream::F64(s) => sink_value(s, sink, remaining),
        Stream::I32(s) => sink_value(s, sink, remaining),
        Stream::OF64(s) => sink_value(s, sink, remaining),
        Stream::OI32(s) => sink_value(s, sink, remaining),
        Stream::Trk(s) => sink_value(s, sink, remaining),
        Stream::RF64(s) => sink_res(s, sink),
        Stream::RI32(s) => sink_res(s, sink),
        Stream::ROF64(s) => sink_res(s, sink),
        Stream::ROI32(s) => sink_res(s, sink),
        Stream::RTrk(s) => match sink {
            Sink::TryTrustedToVec => try_to_vec(s),
            _ => bad("tracked fallible streams only go to try_collect_trusted_to_vec"),
        },
    }
}

/// Replay the whole script and perform the terminal operation for real. Must only be called
/// after every probe of the program was clean (so no raw-pointer collector sees a wrong hint).
pub fn commit(p: &Pipe, remaining: usize) -> Result<CommitOut, String> {
    let lens = resolve_lens(p, p.ops.len())?;
    trk_reset();
    let _ = sim_log_take();
    let r = guarded(|| {
        let arena = Arena::new();
        let mut pulled = Vec::new();
        let out = match replay(&arena, p, p.ops.len(), &lens, &mut pulled) {
            Err(e) => Err(e),
            Ok(mut s) => match &p.terminal {
                Terminal::Drain => {
                    let (d, _) = s.drain(remaining.saturating_add(16));
                    drop(s);
                    Ok(SinkRes { out: SinkOut::Drained(d), dead: vec![] })
                },
                Terminal::Drop => {
                    drop(s);
                    Ok(SinkRes { out: SinkOut::Dropped, dead: vec![] })
                },
                Terminal::Count => Ok(SinkRes { out: SinkOut::Counted(s.count()), dead: vec![] }),
                Terminal::Last => Ok(SinkRes { out: SinkOut::Last(s.last_obs()), dead: vec![] }),
                Terminal::ForEach => Ok(SinkRes { out: SinkOut::Drained(s.for_each_obs()), dead: vec![] }),
                Terminal::HandOff(sink) => run_sink(s, sink, remaining),
            },
        };
        drop(pulled);
        drop(arena);
        out
    });
    let sim = sim_log_take();
    let double_drops = trk_double_drops();
    let (created, _dropped, live) = trk_counts();
    match r {
        Ok(Ok(sr)) => Ok(CommitOut {
            sink: sr.out,
            sim,
            double_drops,
            dead_in_result: sr.dead,
            trk_created: created,
            trk_leaked: live,
        }),
        Ok(Err(e)) => Err(e),
        Err(panic_msg) => Err(panic_msg),
    }
}
