//! Seeded program generation. Everything a run will do is decided here, before it starts.

use crate::program::*;
use crate::rng::Rng;

#[derive(Clone, Copy, Debug, PartialEq, Eq)]
pub enum Mix {
    /// consumer histories over library pipelines (C09)
    Pipelines,
    /// simulator-owned source, error items, buffers, containers (C19 clause 2)
    Sinks,
}

#[derive(Clone, Debug)]
pub struct GenCfg {
    pub max_len: usize,
    pub max_depth: usize,
    pub polars: bool,
    pub mix: Mix,
    /// long inputs: lengths around powers of two up to `max_len` (size-threshold fast paths,
    /// chunk boundaries), with few consumer steps; draws nothing extra when off
    pub long: bool,
}

/// swarm: which fault / op kinds this run may use
struct Swarm {
    back: bool,
    nth: bool,
    wrap: bool,
    extreme: bool,
    remat: bool,
    partial: bool,
}

fn gen_len(rng: &mut Rng, max_len: usize) -> usize {
    match rng.below(8) {
        0 => 0,
        1 => 1,
        2 | 3 => rng.below(max_len.min(5) + 1),
        _ => rng.below(max_len + 1),
    }
}

/// a length at, just below or just above a power of two (16 ..= max_len)
fn gen_long_len(rng: &mut Rng, max_len: usize) -> usize {
    let mut pows = vec![];
    let mut p = 16usize;
    while p <= max_len {
        pows.push(p);
        p *= 2;
    }
    let p = *rng.pick(&pows);
    match rng.below(4) {
        0 => p - 1,
        1 => p + 1,
        _ => p,
    }
}

fn gen_val(rng: &mut Rng, ty: Ty, null_pct: usize) -> Val {
    if ty.nullable() && rng.chance(null_pct, 100) {
        return Val::Null;
    }
    if ty == Ty::OptF64 && rng.chance(1, 40) {
        // Some(NaN): a non-null option holding a NaN
        return Val::F(f64::NAN);
    }
    if ty.is_float() && rng.chance(1, 30) {
        // infinities are ordinary (non-null) float values
        return Val::F(if rng.chance(1, 2) { f64::INFINITY } else { f64::NEG_INFINITY });
    }
    match ty {
        Ty::F64 | Ty::OptF64 => {
            let base = rng.range_i(-4, 9) as f64;
            match rng.below(6) {
                0 => Val::F(base + 0.5),
                1 => Val::F(base * 1.25),
                _ => Val::F(base),
            }
        },
        Ty::I32 | Ty::OptI32 => Val::I(rng.range_i(-4, 9)),
        Ty::Trk => Val::I(rng.range_i(0, 99)),
    }
}

fn gen_nonnull(rng: &mut Rng, ty: Ty) -> Val {
    gen_val(rng, ty, 0)
}

fn gen_data(rng: &mut Rng, ty: Ty, len: usize) -> Vec<Val> {
    let null_pct = *rng.pick(&[0usize, 0, 10, 30, 60, 100]);
    (0..len)
        .map(|i| {
            if ty == Ty::Trk {
                // origin -1 is the null of tracked items
                if rng.chance(null_pct, 200) { Val::Null } else { Val::I(i as i64) }
            } else {
                gen_val(rng, ty, null_pct)
            }
        })
        .collect()
}

fn gen_lag(rng: &mut Rng, rem: usize, extreme: bool) -> i32 {
    if extreme && rng.chance(1, 12) {
        return *rng.pick(&[i32::MIN, i32::MAX, i32::MIN + 1]);
    }
    let r = rem as i64;
    match rng.below(6) {
        // the critical sizes
        0 => *rng.pick(&[r, -r, r + 1, -r - 1, r - 1, 1 - r]) as i32,
        _ => rng.range_i(-r - 3, r + 3) as i32,
    }
}

fn gen_k(rng: &mut Rng, rem: usize) -> usize {
    match rng.below(4) {
        0 => *rng.pick(&[rem.saturating_sub(1), rem, rem + 1, rem.saturating_sub(2)]),
        _ => rng.below(rem + 3),
    }
}

fn gen_backend(rng: &mut Rng, ty: Ty, cfg: &GenCfg, for_view: bool, len: usize) -> Backend {
    if ty == Ty::Trk {
        return match rng.below(7) {
            0 => Backend::Vec,
            1 => Backend::ArcVec,
            2 => Backend::Deque { head: rng.below(6) },
            3 => Backend::Array1,
            4 => Backend::SliceRef,
            5 => Backend::SliceMut,
            _ => Backend::Sim,
        };
    }
    loop {
        let b = match rng.below(if cfg.polars { 16 } else { 14 }) {
            10 => Backend::SliceRef,
            11 => Backend::SliceMut,
            12 => Backend::FixedArray,
            13 => Backend::NdViewMut,
            0 | 1 => Backend::Vec,
            2 => Backend::ArcVec,
            3 => Backend::Deque { head: rng.below(8) },
            4 => Backend::ArcDeque { head: rng.below(8) },
            5 => Backend::Array1,
            6 => Backend::ArrayView { stride: *rng.pick(&[1i64, 2, 3, -1, -2]) },
            7 => Backend::OptOfVec,
            8 => Backend::OptOfArray1,
            9 => Backend::Sim,
            _ => {
                let n = rng.below(3);
                Backend::Polars { chunks: (0..n).map(|_| rng.below(5)).collect() }
            },
        };
        match &b {
            Backend::Polars { .. } if !matches!(ty, Ty::OptF64 | Ty::OptI32) => continue,
            Backend::Sim if for_view => continue,
            Backend::FixedArray if len > 6 => continue,
            _ => return b,
        }
    }
}

/// element type of the stream a container of `ty` hands out through `backend`
fn backend_item_ty(ty: Ty, backend: &Backend) -> Ty {
    match backend {
        Backend::OptOfVec | Backend::OptOfArray1 => match ty {
            Ty::F64 | Ty::OptF64 => Ty::OptF64,
            _ => Ty::OptI32,
        },
        _ => ty,
    }
}

fn gen_viewop(rng: &mut Rng, item_ty: Ty, len: usize, sw: &Swarm, backend: &Backend) -> ViewOp {
    if matches!(backend, Backend::SliceRef | Backend::SliceMut) {
        return if rng.chance(1, 3) { ViewOp::TiterMap } else { ViewOp::Titer };
    }
    if *backend == Backend::Sim || item_ty == Ty::Trk {
        return if item_ty == Ty::Trk && *backend != Backend::Sim && rng.chance(1, 3) {
            ViewOp::TiterMap
        } else {
            ViewOp::Titer
        };
    }
    loop {
        let op = match rng.below(16) {
            0 | 1 | 2 => ViewOp::Titer,
            3 => ViewOp::TiterMap,
            4 => ViewOp::IterCast,
            5 => ViewOp::OptIterCast,
            6 => ViewOp::ToOptIter,
            7 => ViewOp::OptTiter,
            8 => ViewOp::OptIntoIter,
            9 => ViewOp::VDiff {
                n: gen_lag(rng, len, sw.extreme),
                fill: if item_ty == Ty::I32 || rng.chance(1, 2) { Some(gen_nonnull(rng, item_ty)) } else { None },
            },
            10 => ViewOp::VPct { n: gen_lag(rng, len, sw.extreme) },
            11 | 12 => ViewOp::VPart { k: gen_k(rng, len), sort: rng.chance(1, 2), rev: rng.chance(1, 2) },
            13 => ViewOp::VArgPart { k: gen_k(rng, len), sort: rng.chance(1, 2), rev: rng.chance(1, 2) },
            14 => ViewOp::Winsor {
                method: rng.below(3) as u8,
                p: match rng.below(4) {
                    0 => None,
                    _ => Some(*rng.pick(&[0.0, 0.1, 0.25, 0.5, 1.0, 2.0])),
                },
            },
            _ => ViewOp::RollIter { w: 1 + gen_k(rng, len) },
        };
        if op.out_ty(item_ty).is_some() {
            return op;
        }
    }
}

/// the simulator's own model of how many items are left (used only to aim parameters at
/// the critical sizes; the real number is measured when the program runs)
fn model_len_after_view(op: &ViewOp, len: usize) -> usize {
    match op {
        ViewOp::VPart { k, sort, .. } => {
            if *sort {
                (*k + 1).min(len.max(1))
            } else {
                *k + 1
            }
        },
        ViewOp::VArgPart { k, .. } => *k + 1,
        _ => len,
    }
}

struct Cursor {
    ty: Ty,
    de: bool,
    res: bool,
    plain: bool,
    /// the stream may hold Err items
    may_err: bool,
    rem: usize,
    depth: usize,
}

fn gen_stage(rng: &mut Rng, cur: &Cursor, sw: &Swarm, cfg: &GenCfg) -> Option<Stage> {
    if cur.plain {
        return Some(Stage::MapId);
    }
    if cfg.mix == Mix::Sinks && !(cur.res && cur.ty == Ty::Trk) && rng.chance(1, 4) {
        return Some(Stage::Loose { m: *rng.pick(&[0usize, 2, 3]) });
    }
    if cur.res {
        return Some(match rng.below(6) {
            0 => Stage::MapId,
            1 if cur.de => Stage::Rev,
            2 => Stage::StepBy { k: 1 + rng.below(3) },
            3 => Stage::Scan,
            4 => Stage::ToTrust,
            _ => Stage::Take { k: gen_k(rng, cur.rem) },
        });
    }
    if cur.ty == Ty::Trk {
        let tv = |rng: &mut Rng| -> Val { if rng.chance(1, 5) { Val::Null } else { Val::I(1000 + rng.below(10) as i64) } };
        return Some(match rng.below(12) {
            0 => Stage::MapId,
            1 if cur.de => Stage::Rev,
            4 => Stage::StepBy { k: 1 + rng.below(3) },
            5 => Stage::Scan,
            6 => Stage::ToTrust,
            7 => Stage::VShift {
                n: gen_lag(rng, cur.rem, false),
                fill: if rng.chance(1, 2) { None } else { Some(tv(rng)) },
            },
            8 => { let m = fill_mask(rng); Stage::FFill { fill: if rng.chance(1, 2) { None } else { Some(tv(rng)) }, mask: m } }
            9 if cur.de => { let m = fill_mask(rng); Stage::BFill { fill: if rng.chance(1, 2) { None } else { Some(tv(rng)) }, mask: m } }
            10 => Stage::Fill { v: tv(rng) },
            2 => Stage::Shift { n: gen_lag(rng, cur.rem, false), v: Val::I(1000 + rng.below(10) as i64) },
            _ => Stage::Take { k: gen_k(rng, cur.rem) },
        });
    }
    let ty = cur.ty;
    for _ in 0..20 {
        let st = match rng.below(24) {
            19 => Stage::StepBy { k: 1 + rng.below(3) },
            21 => Stage::Scan,
            22 | 23 => Stage::ToTrust,
            0 => Stage::Abs,
            1 => Stage::VAbs,
            2 | 3 | 4 => Stage::Shift {
                n: gen_lag(rng, cur.rem, sw.extreme),
                v: if ty.nullable() && rng.chance(1, 4) { Val::Null } else { gen_nonnull(rng, ty) },
            },
            5 | 6 | 7 => Stage::VShift {
                n: gen_lag(rng, cur.rem, sw.extreme),
                fill: if ty == Ty::I32 {
                    if rng.chance(1, 20) { None } else { Some(gen_nonnull(rng, ty)) }
                } else if rng.chance(1, 2) {
                    None
                } else {
                    Some(gen_val(rng, ty, 20))
                },
            },
            8 => { let m = fill_mask(rng); Stage::FFill { fill: if rng.chance(1, 2) { None } else { Some(gen_nonnull(rng, ty)) }, mask: m } }
            9 => { let m = fill_mask(rng); Stage::BFill { fill: if rng.chance(1, 2) { None } else { Some(gen_nonnull(rng, ty)) }, mask: m } }
            10 => Stage::Fill { v: gen_nonnull(rng, ty) },
            11 => {
                let a = gen_nonnull(rng, ty);
                let b = gen_nonnull(rng, ty);
                let (lo, hi) = if a.as_f64() <= b.as_f64() { (a, b) } else { (b, a) };
                match (ty.nullable(), rng.below(4)) {
                    (true, 0) => Stage::VClip { lo: Val::Null, hi },
                    (true, 1) => Stage::VClip { lo, hi: Val::Null },
                    (true, 2) => Stage::VClip { lo: Val::Null, hi: Val::Null },
                    _ => Stage::VClip { lo, hi },
                }
            },
            12 => Stage::Rev,
            13 => Stage::MapId,
            14 => Stage::Take { k: gen_k(rng, cur.rem) },
            15 | 16 | 17 if sw.remat => {
                let backend = gen_backend(rng, ty, cfg, true, cur.rem);
                let item_ty = backend_item_ty(ty, &backend);
                let op = gen_viewop(rng, item_ty, cur.rem, sw, &backend);
                Stage::Remat { backend, op }
            },
            18 => {
                let nb = rng.below(6);
                let mut bins: Vec<i64> = (0..nb).map(|_| rng.range_i(-5, 10)).collect();
                bins.sort();
                bins.dedup();
                let add_bounds = rng.chance(1, 2);
                let right = rng.chance(1, 2);
                let want = if add_bounds { bins.len() + 1 } else { bins.len().saturating_sub(1) };
                let nl = if rng.chance(4, 5) { want } else { rng.below(7) };
                let bins = bins
                    .into_iter()
                    .map(|b| if ty.is_float() { Val::F(b as f64) } else { Val::I(b) })
                    .collect();
                let labels = (0..nl)
                    .map(|i| if ty.is_float() { Val::F(100.0 + i as f64) } else { Val::I(100 + i as i64) })
                    .collect();
                Stage::VCut { bins, labels, right, add_bounds }
            },
            _ => continue,
        };
        let ok = match &st {
            Stage::Abs => matches!(ty, Ty::F64 | Ty::I32),
            Stage::BFill { .. } | Stage::Rev => cur.de,
            Stage::Remat { .. } => cur.depth < cfg.max_depth,
            _ => true,
        };
        if ok {
            return Some(st);
        }
    }
    None
}

fn apply_model(cur: &mut Cursor, st: &Stage) {
    cur.depth += 1;
    match st {
        Stage::Rev | Stage::MapId | Stage::ToTrust => {},
        Stage::Take { k } => {
            cur.rem = cur.rem.min(*k);
            cur.de = false;
        },
        Stage::StepBy { k } => {
            cur.rem = cur.rem.div_ceil((*k).max(1));
            cur.de = false;
        },
        Stage::Loose { m } => {
            cur.rem -= cur.rem / (*m).max(2);
            cur.de = false;
            cur.plain = true;
        },
        Stage::Remat { backend, op } => {
            let item = backend_item_ty(cur.ty, backend);
            cur.ty = op.out_ty(item).unwrap_or(cur.ty);
            cur.de = op.double_ended();
            cur.rem = model_len_after_view(op, cur.rem);
        },
        Stage::VCut { .. } => {
            cur.res = true;
            cur.may_err = true;
            cur.de = false;
        },
        _ => cur.de = false,
    }
}

fn gen_container(rng: &mut Rng, cfg: &GenCfg, ty: Ty) -> Container {
    let polars_ok = cfg.polars && matches!(ty, Ty::OptF64 | Ty::OptI32);
    match rng.below(if polars_ok { 7 } else { 6 }) {
        0 | 1 => Container::Vec,
        2 => Container::Deque,
        3 => Container::Array1,
        4 => Container::Sim,
        5 => Container::Plain,
        _ => Container::Polars,
    }
}

fn gen_buf_len(rng: &mut Rng, m: usize) -> usize {
    match rng.below(8) {
        0 => 0,
        1 => 1,
        2 | 3 | 4 => m,
        5 => m + 1,
        6 => m.saturating_sub(1),
        _ => m + 1 + rng.below(3),
    }
}

fn gen_sink(rng: &mut Rng, cfg: &GenCfg, cur: &Cursor) -> Sink {
    if cur.plain {
        let c = *rng.pick(&[Container::Vec, Container::Deque, Container::Array1, Container::Sim, Container::Plain]);
        if cur.res {
            let c = if c == Container::Plain && cur.may_err { Container::Vec } else { c };
            return if cur.ty == Ty::Trk { Sink::TryPlain(Container::Vec) } else { Sink::TryPlain(c) };
        }
        return match rng.below(3) {
            0 if matches!(cur.ty, Ty::OptF64 | Ty::OptI32) => Sink::OptCollect(c),
            1 => Sink::WithLen(c),
            _ => Sink::PlainVec1(c),
        };
    }
    if cur.res {
        if cur.ty == Ty::Trk {
            return Sink::TryTrustedToVec;
        }
        let c = match gen_container(rng, cfg, cur.ty) {
            // the inherited default of the fallible collectors unwraps (documented fallback)
            Container::Plain if cur.may_err => Container::Vec,
            c => c,
        };
        return match rng.below(5) {
            0 | 1 => Sink::TryTrustedToVec,
            2 | 3 => Sink::TryTrusted(c),
            _ => Sink::TryPlain(c),
        };
    }
    let c = {
        let c = gen_container(rng, cfg, cur.ty);
        if cur.ty == Ty::Trk && c == Container::Polars { Container::Vec } else { c }
    };
    let buf = || -> BufKind { BufKind::Slice };
    let _ = buf;
    let n = if cfg.mix == Mix::Sinks { 12 } else { 9 };
    match rng.below(n) {
        0 | 1 => Sink::TrustedToVec,
        2 | 3 | 4 => Sink::TrustedVec1(c),
        5 => Sink::PlainVec1(c),
        6 => Sink::WithLen(c),
        7 if matches!(cur.ty, Ty::OptF64 | Ty::OptI32) => {
            Sink::OptCollect(if c == Container::Polars { Container::Vec } else { c })
        },
        7 => Sink::TrustedVec1(c),
        _ => Sink::Write {
            buf: *rng.pick(&[
                BufKind::Slice,
                BufKind::SubSlice,
                BufKind::Deque,
                BufKind::NdView,
                BufKind::NdStrided,
                BufKind::NdReversed,
                BufKind::Sim,
                BufKind::Sim,
                BufKind::OwnedVec,
            ]),
            len: gen_buf_len(rng, cur.rem),
            slack: *rng.pick(&[0usize, 0, 1, 3, 8]),
        },
    }
}

pub fn gen_pipe(rng: &mut Rng, cfg: &GenCfg) -> Pipe {
    let sw = Swarm {
        back: rng.chance(2, 3),
        nth: rng.chance(1, 2),
        wrap: rng.chance(4, 5),
        extreme: rng.chance(1, 3),
        remat: rng.chance(2, 3),
        partial: rng.chance(5, 6),
    };
    let sinks = cfg.mix == Mix::Sinks;
    let ty = if sinks {
        *rng.pick(&[Ty::F64, Ty::I32, Ty::OptF64, Ty::OptI32, Ty::Trk, Ty::Trk])
    } else {
        *rng.pick(&[Ty::F64, Ty::F64, Ty::F64, Ty::I32, Ty::I32, Ty::OptF64, Ty::OptF64, Ty::OptI32, Ty::Trk])
    };
    let len = if cfg.long { gen_long_len(rng, cfg.max_len) } else { gen_len(rng, cfg.max_len) };
    let data = gen_data(rng, ty, len);
    let backend = if sinks && rng.chance(7, 10) { Backend::Sim } else { gen_backend(rng, ty, cfg, false, len) };
    let item_ty = backend_item_ty(ty, &backend);
    let root = if sinks {
        if backend == Backend::Sim || rng.chance(2, 3) { ViewOp::Titer } else { gen_viewop(rng, item_ty, len, &sw, &backend) }
    } else {
        gen_viewop(rng, item_ty, len, &sw, &backend)
    };
    let (mut errs, mut fallible) = (vec![], false);
    if backend == Backend::Sim && rng.chance(if sinks { 1 } else { 1 }, if sinks { 2 } else { 8 }) {
        fallible = true;
        if len > 0 {
            match rng.below(5) {
                0 => {},
                1 => errs.push(rng.below(len)),
                2 => errs.push(*rng.pick(&[0, len - 1])),
                _ => {
                    for i in 0..len {
                        if rng.chance(1, 4) {
                            errs.push(i);
                        }
                    }
                },
            }
        }
    }
    let mut cur = Cursor {
        ty: root.out_ty(item_ty).unwrap_or(item_ty),
        de: root.double_ended(),
        res: fallible,
        plain: false,
        may_err: !errs.is_empty(),
        rem: model_len_after_view(&root, len),
        depth: 1,
    };
    let max_ops = if sinks { 4 } else if cfg.long { 12 } else { 2 * len + 8 };
    let n_ops = match rng.below(4) {
        0 => rng.below(3),
        1 => rng.below(max_ops.min(6) + 1),
        _ => rng.below(max_ops + 1),
    };
    let mut ops = Vec::new();
    for _ in 0..n_ops {
        let roll = rng.below(100);
        let op = if roll < 30 && sw.partial {
            Op::Next
        } else if roll < 50 && sw.back && cur.de && sw.partial {
            Op::NextBack
        } else if roll < 56 && sw.nth && sw.partial {
            Op::Nth(rng.below(3))
        } else if roll < 60 && sw.nth && sw.back && cur.de && sw.partial {
            Op::NthBack(rng.below(3))
        } else if sw.wrap && cur.depth < cfg.max_depth + if sinks { 0 } else { 0 } {
            if cur.plain {
                Op::Wrap(Stage::MapId)
            } else if sinks && roll < 90 {
                // sinks mix: keep the pipeline thin
                match rng.below(6) {
                    3 if !(cur.res && cur.ty == Ty::Trk) => Op::Wrap(Stage::Loose { m: *rng.pick(&[0usize, 2, 3]) }),
                    4 => Op::Wrap(Stage::Scan),
                    5 => Op::Wrap(Stage::ToTrust),
                    0 => Op::Wrap(Stage::MapId),
                    1 if cur.de => Op::Wrap(Stage::Rev),
                    _ => Op::Wrap(Stage::Take { k: gen_k(rng, cur.rem) }),
                }
            } else {
                match gen_stage(rng, &cur, &sw, cfg) {
                    Some(s) => Op::Wrap(s),
                    None => Op::Next,
                }
            }
        } else if sw.partial {
            Op::Next
        } else {
            continue;
        };
        match &op {
            Op::Next | Op::NextBack => cur.rem = cur.rem.saturating_sub(1),
            Op::Nth(k) | Op::NthBack(k) => cur.rem = cur.rem.saturating_sub(k + 1),
            Op::Wrap(st) => apply_model(&mut cur, st),
        }
        ops.push(op);
    }
    let terminal = {
        let r = rng.below(100);
        let (drain, handoff) = if sinks { (3, 93) } else { (35, 88) };
        if r < drain {
            match rng.below(8) {
                0 => Terminal::Count,
                1 => Terminal::Last,
                2 => Terminal::ForEach,
                _ => Terminal::Drain,
            }
        } else if r < handoff {
            Terminal::HandOff(gen_sink(rng, cfg, &cur))
        } else {
            Terminal::Drop
        }
    };
    Pipe { ty, data, errs, fallible, backend, root, ops, terminal }
}

// which mask a fill stage uses: half of them the default null mask, the rest one of the two custom masks
fn fill_mask(rng: &mut Rng) -> u8 {
    match rng.below(4) {
        0 | 1 => 0,
        2 => 1,
        _ => 2,
    }
}
