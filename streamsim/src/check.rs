//! Oracles: invariants over the recorded history of one run.

use std::collections::BTreeMap;

use crate::elem::*;
use crate::exec::*;
use crate::program::*;

#[derive(Clone, Debug)]
pub struct Violation {
    /// properties this violation counts against
    pub props: Vec<&'static str>,
    /// oracle id: H1, H2, H3, H4, H1i, K0..K6
    pub oracle: &'static str,
    /// outermost library stage / sink at the point of violation
    pub stage: String,
    pub detail: String,
}

impl Violation {
    pub fn class(&self) -> String {
        format!("{}:{}", self.oracle, self.stage)
    }
    pub fn concerns(&self, prop: &str) -> bool {
        self.props.iter().any(|p| *p == prop)
    }
}

#[derive(Clone, Debug, Default)]
pub struct RunStats {
    pub executions: u64,
    pub consumer_ops: u64,
    pub items_pulled: u64,
    pub hints_checked: u64,
    pub faults: BTreeMap<&'static str, u64>,
    pub probes: BTreeMap<&'static str, u64>,
    pub signature: u64,
    /// FNV digest of the run's recorded history (hints, items, sink result)
    pub digest: u64,
    pub nontrivial: bool,
    /// the run ended early for a reason that is not a violation (documented Err, documented
    /// panic for a non-nullable element type)
    pub ended_early: Option<String>,
    pub harness_error: Option<String>,
}

impl RunStats {
    pub fn fault(&mut self, k: &'static str) {
        *self.faults.entry(k).or_insert(0) += 1;
    }
    pub fn hit(&mut self, k: &'static str) {
        *self.probes.entry(k).or_insert(0) += 1;
    }
}

pub fn fnv(h: &mut u64, bytes: &[u8]) {
    for b in bytes {
        *h ^= *b as u64;
        *h = h.wrapping_mul(0x0000_0100_0000_01B3);
    }
}

/// The library documents one panic for parameters outside the properties' domain: asking a
/// non-nullable element type (i32) for its null. It is accepted only when the program really
/// asks for one: a `vshift` / `vdiff` without a fill value, the padding of `vpartition`, or
/// `collect_vec1_opt` of a stream that holds a `None`. Anywhere else the same panic means the
/// library evaluated a null it had no reason to evaluate, and is a failure.
/// What `<i32 as IsNone>::none()` panics with on this tree, learned by calling it once (so a
/// reworded message does not turn the documented panic into an alarm); None if it does not panic.
fn none_panic_message() -> &'static Option<String> {
    static MSG: std::sync::OnceLock<Option<String>> = std::sync::OnceLock::new();
    MSG.get_or_init(|| guarded(|| <i32 as tea_core::prelude::IsNone>::none()).err())
}

fn documented_panic(p: &Pipe, msg: &str, expected: Option<&[Obs]>) -> bool {
    match none_panic_message() {
        Some(m) if msg == m => {},
        _ => return false,
    }
    let view_asks = |op: &ViewOp| matches!(op, ViewOp::VDiff { fill: None, .. } | ViewOp::VPart { .. });
    if view_asks(&p.root) {
        return true;
    }
    for op in &p.ops {
        match op {
            Op::Wrap(Stage::VShift { fill: None, .. }) => return true,
            Op::Wrap(Stage::Remat { op, .. }) if view_asks(op) => return true,
            _ => {},
        }
    }
    if let (Terminal::HandOff(Sink::OptCollect(_)), Some(e)) = (&p.terminal, expected) {
        return e.iter().any(|o| matches!(o, Obs::N));
    }
    false
}

fn stage_at(p: &Pipe, cut: usize) -> String {
    for op in p.ops[..cut].iter().rev() {
        if let Op::Wrap(st) = op {
            return st.kind().to_string();
        }
    }
    p.root.kind().to_string()
}

fn lag_class(n: i32, len: usize) -> &'static str {
    let l = len as i64;
    let n = n as i64;
    if n == i32::MIN as i64 || n == i32::MAX as i64 {
        "extreme"
    } else if n < -l {
        "n<-L"
    } else if n == -l && l != 0 {
        "n=-L"
    } else if n < 0 {
        "-L<n<0"
    } else if n == 0 {
        "0"
    } else if n < l {
        "0<n<L"
    } else if n == l {
        "n=L"
    } else {
        "n>L"
    }
}

fn k_class(k: usize, len: usize) -> &'static str {
    if k + 1 < len {
        "k+1<L"
    } else if k + 1 == len {
        "k+1=L"
    } else {
        "k>=L"
    }
}

fn viewop_sig(op: &ViewOp, len: usize) -> String {
    match op {
        ViewOp::VDiff { n, fill } => format!("vdiff[{},{}]", lag_class(*n, len), fill.is_some()),
        ViewOp::VPct { n } => format!("vpct[{}]", lag_class(*n, len)),
        ViewOp::VPart { k, sort, rev } => format!("vpart[{},{sort},{rev}]", k_class(*k, len)),
        ViewOp::VArgPart { k, sort, rev } => format!("vargpart[{},{sort},{rev}]", k_class(*k, len)),
        ViewOp::Winsor { method, p } => format!("winsor[{method},{}]", p.is_some()),
        ViewOp::RollIter { w } => format!("roll[{}]", k_class(w.saturating_sub(1), len)),
        o => o.kind().to_string(),
    }
}

fn stage_sig(st: &Stage, len: usize) -> String {
    match st {
        Stage::Shift { n, .. } => format!("shift[{}]", lag_class(*n, len)),
        Stage::VShift { n, fill } => format!("vshift[{},{}]", lag_class(*n, len), fill.is_some()),
        Stage::Take { k } => format!("take[{}]", k_class(*k, len + 1)),
        Stage::StepBy { k } => format!("step_by[{}]", (*k).min(4)),
        Stage::Loose { m } => format!("loose[{m}]"),
        Stage::VClip { lo, hi } => format!("vclip[{},{}]", lo.is_null(), hi.is_null()),
        Stage::Remat { backend, op } => format!("remat[{},{}]", backend.kind(), viewop_sig(op, len)),
        Stage::VCut { bins, labels, right, add_bounds } => {
            format!("vcut[{},{},{right},{add_bounds}]", bins.len(), labels.len())
        },
        s => s.kind().to_string(),
    }
}

fn len_class(n: usize) -> &'static str {
    match n {
        0 => "L0",
        1 => "L1",
        2..=4 => "L2-4",
        5..=12 => "L5-12",
        _ => "L13+",
    }
}

fn sentinel_obs(o: &Obs) -> bool {
    match o {
        Obs::B(b) => *b == F64_SENTINEL_BITS || *b == (I32_SENTINEL as i64 as u64),
        Obs::T(origin, _) => *origin == -999,
        _ => false,
    }
}

fn short(obs: &[Obs]) -> String {
    let mut s = String::new();
    for (i, o) in obs.iter().enumerate() {
        if i >= 12 {
            s.push_str(" ..");
            break;
        }
        if i > 0 {
            s.push(' ');
        }
        match o {
            Obs::B(b) => s.push_str(&format!("{b:#x}")),
            Obs::N => s.push_str("None"),
            Obs::E(m) => s.push_str(&format!("Err({m})")),
            Obs::T(o, i) => s.push_str(&format!("T{o}#{i}")),
        }
    }
    s
}


/// first H1 / H4 violation of a program, by probing every cut point (used for blame only)
fn scan(p: &Pipe) -> Option<(&'static str, usize)> {
    for cut in 0..=p.ops.len() {
        match probe(p, cut) {
            Err(msg) => {
                if msg.starts_with(HARNESS) || msg.starts_with("DOCUMENTED-ERR") || documented_panic(p, &msg, None) {
                    return None;
                }
                return Some(("H4", cut));
            },
            Ok(o) => {
                let got = o.drained.len();
                let bad = if o.plain {
                    // an untrusted iterator may announce a loose bound; nothing to hold it to
                    false
                } else if o.capped { matches!(o.hint.1, Some(hi) if hi < got) } else { o.hint.1 != Some(got) };
                if bad || (!o.plain && !o.capped && matches!(o.tl_len, Some(l) if l != got)) {
                    return Some(("H1", cut));
                }
            },
        }
    }
    None
}

/// Canonical attribution: the innermost stage of the pipeline that, with the same pulls in
/// between, already shows the violation on its own. Outer adaptors only forward a wrong hint.
fn blame(p: &Pipe, cut: usize, oracle: &'static str) -> String {
    let wraps: Vec<usize> = (0..cut).filter(|i| matches!(p.ops[*i], Op::Wrap(_))).collect();
    for keep in 0..wraps.len() {
        let mut q = p.clone();
        q.terminal = Terminal::Drain;
        q.ops = p.ops[..cut]
            .iter()
            .enumerate()
            .filter(|(i, op)| !matches!(op, Op::Wrap(_)) || wraps[..keep].contains(i))
            .map(|(_, op)| op.clone())
            .collect();
        if let Some((o, c2)) = scan(&q) {
            if o == oracle {
                return stage_at(&q, c2);
            }
        }
    }
    stage_at(p, cut)
}

/// innermost stage whose stream already disagrees under the program's consuming terminal
fn blame_terminal(p: &Pipe) -> String {
    let wraps: Vec<usize> = (0..p.ops.len()).filter(|i| matches!(p.ops[*i], Op::Wrap(_))).collect();
    for keep in 0..wraps.len() {
        let mut q = p.clone();
        q.ops = p
            .ops
            .iter()
            .enumerate()
            .filter(|(i, op)| !matches!(op, Op::Wrap(_)) || wraps[..keep].contains(i))
            .map(|(_, op)| op.clone())
            .collect();
        let n = q.ops.len();
        let Ok(pr) = probe(&q, n) else { continue };
        if pr.capped {
            continue;
        }
        let Ok(c) = commit(&q, pr.drained.len()) else { continue };
        let ok = match &c.sink {
            SinkOut::Counted(k) => *k == pr.drained.len(),
            SinkOut::Last(l) => match (l, pr.drained.last()) {
                (None, None) => true,
                (Some(a), Some(b)) => a.same(b),
                _ => false,
            },
            SinkOut::Drained(d) => obs_seq_same(d, &pr.drained),
            _ => true,
        };
        if !ok {
            return stage_at(&q, n);
        }
    }
    stage_at(p, p.ops.len())
}

/// Run every oracle on one pipe program.
pub fn check_pipe(p: &Pipe) -> (Vec<Violation>, RunStats) {
    let mut st = RunStats::default();
    let mut viol: Vec<Violation> = Vec::new();
    let n_ops = p.ops.len();
    let mut probes: Vec<ProbeOut> = Vec::with_capacity(n_ops + 1);
    let mut digest = 0xcbf2_9ce4_8422_2325u64;

    // ---- probes: hint after every step vs. what plain safe iteration then yields (H1, H3, H4)
    for cut in 0..=n_ops {
        st.executions += 1;
        let stage = stage_at(p, cut);
        match probe(p, cut) {
            Err(msg) => {
                if msg.starts_with(HARNESS) {
                    st.harness_error = Some(msg);
                } else if msg.starts_with("DOCUMENTED-ERR") {
                    st.hit("documented_err");
                    st.ended_early = Some(msg);
                } else if documented_panic(p, &msg, None) {
                    st.hit("documented_panic_non_nullable");
                    st.ended_early = Some(msg);
                } else {
                    viol.push(Violation {
                        props: vec!["C09"],
                        oracle: "H4",
                        stage: blame(p, cut, "H4"),
                        detail: format!("library panicked after {cut} consumer steps (outermost stage {stage}): {msg}"),
                    });
                }
                break;
            },
            Ok(o) => {
                fnv(&mut digest, format!("{:?}{:?}{:?}", o.hint, o.drained, o.pulled).as_bytes());
                st.hints_checked += 1;
                st.hit("oracle_H1_hint_vs_drain");
                let got = o.drained.len();
                let bad = if o.plain {
                    // an untrusted iterator may announce a loose bound; nothing to hold it to
                    false
                } else if o.capped {
                    // stream not exhausted within the cap: only over-yield is decidable
                    matches!(o.hint.1, Some(hi) if hi < got)
                } else {
                    o.hint.1 != Some(got)
                };
                if bad {
                    viol.push(Violation {
                        props: vec!["C09"],
                        oracle: "H1",
                        stage: blame(p, cut, "H1"),
                        detail: format!(
                            "after {cut} consumer steps (outermost stage {stage}) size_hint() = {:?} but plain iteration yields {}{} items",
                            o.hint,
                            if o.capped { "at least " } else { "" },
                            got
                        ),
                    });
                }
                if !bad && !o.plain && !o.capped {
                    if let Some(l) = o.tl_len {
                        if l != got {
                            viol.push(Violation {
                                props: vec!["C09"],
                                oracle: "H1",
                                stage: blame(p, cut, "H1"),
                                detail: format!(
                                    "after {cut} consumer steps (outermost stage {stage}) TrustedLen::len() = {l} but plain iteration yields {got} items (size_hint {:?})",
                                    o.hint
                                ),
                            });
                        }
                    }
                }
                // a double-ended stream must hold what it announces from the back as well
                if !bad && o.de && !o.plain && !o.capped {
                    st.executions += 1;
                    match probe_back(p, cut) {
                        Ok(b) => {
                            st.hit("oracle_H1_hint_vs_back_drain");
                            if b.capped || b.drained.len() != got {
                                viol.push(Violation {
                                    props: vec!["C09"],
                                    oracle: "H1",
                                    stage: stage.clone(),
                                    detail: format!(
                                        "after {cut} consumer steps size_hint() = {:?}; next() yields {got} items but next_back() yields {}{}",
                                        o.hint,
                                        if b.capped { "at least " } else { "" },
                                        b.drained.len()
                                    ),
                                });
                            }
                        },
                        Err(msg) => {
                            if !(msg.starts_with(HARNESS) || msg.starts_with("DOCUMENTED-ERR") || documented_panic(p, &msg, None)) {
                                viol.push(Violation {
                                    props: vec!["C09"],
                                    oracle: "H4",
                                    stage: stage.clone(),
                                    detail: format!("library panicked while draining from the back after {cut} consumer steps: {msg}"),
                                });
                            }
                        },
                    }
                }
                if cut > 0 && !bad {
                    if let Op::Wrap(stg) = &p.ops[cut - 1] {
                        let before = probes[cut - 1].drained.len();
                        if stg.length_preserving() {
                            st.hit("oracle_H3_length_preserved");
                        }
                        if stg.length_preserving() && before != got && !probes[cut - 1].capped {
                            viol.push(Violation {
                                props: vec!["C09"],
                                oracle: "H3",
                                stage: stage.clone(),
                                detail: format!(
                                    "{} applied to a stream with {before} items left yields {got} items",
                                    stg.kind()
                                ),
                            });
                        }
                    }
                }
                probes.push(o);
                if !viol.is_empty() {
                    break;
                }
            },
        }
    }

    // ---- statistics, fault kinds that actually fired, signature
    let mut sig = String::new();
    sig.push_str(p.ty.name());
    sig.push('|');
    sig.push_str(p.backend.kind());
    sig.push('|');
    sig.push_str(&viewop_sig(&p.root, p.data.len()));
    sig.push('|');
    sig.push_str(len_class(p.data.len()));
    sig.push('|');
    let mut pulled_some = 0usize;
    let mut back_some = 0usize;
    {
        let mut last_letter = ' ';
        let mut pi = 0usize;
        let full = probes.last().map(|o| o.pulled.clone()).unwrap_or_default();
        for (i, op) in p.ops.iter().enumerate() {
            if i >= probes.len().saturating_sub(1) {
                break;
            }
            st.consumer_ops += 1;
            let rem = probes[i].drained.len();
            match op {
                Op::Next | Op::NextBack | Op::Nth(_) | Op::NthBack(_) => {
                    let got = full.get(pi).map(|x| x.is_some()).unwrap_or(false);
                    pi += 1;
                    if got {
                        pulled_some += 1;
                        if matches!(op, Op::NextBack | Op::NthBack(_)) {
                            back_some += 1;
                        }
                        if let Op::Nth(k) | Op::NthBack(k) = op {
                            st.items_pulled += *k as u64;
                        }
                        st.items_pulled += 1;
                    }
                    if op.letter() != last_letter {
                        sig.push(op.letter());
                        last_letter = op.letter();
                    }
                },
                Op::Wrap(stg) => {
                    last_letter = 'W';
                    sig.push_str(&format!("W({})", stage_sig(stg, rem)));
                    if pulled_some > 0 {
                        st.fault("partial_then_wrap");
                    }
                    match stg {
                        Stage::Shift { n, .. } | Stage::VShift { n, .. } => {
                            if (n.unsigned_abs() as usize) > rem {
                                st.fault("lag_beyond_len");
                            }
                            if *n == i32::MIN || *n == i32::MAX {
                                st.fault("extreme_i32");
                            }
                            if (n.unsigned_abs() as usize) == rem && rem > 0 {
                                st.hit("lag_equals_len");
                            }
                        },
                        Stage::Remat { op, backend } => {
                            match op {
                                ViewOp::VDiff { n, .. } | ViewOp::VPct { n } => {
                                    if (n.unsigned_abs() as usize) > rem {
                                        st.fault("lag_beyond_len");
                                    }
                                    if *n == i32::MIN || *n == i32::MAX {
                                        st.fault("extreme_i32");
                                    }
                                },
                                ViewOp::VPart { k, .. } | ViewOp::VArgPart { k, .. } => {
                                    if *k >= rem {
                                        st.fault("k_ge_len");
                                    }
                                },
                                ViewOp::RollIter { w } => {
                                    if *w > rem {
                                        st.hit("window_gt_len");
                                    }
                                },
                                _ => {},
                            }
                            layout_probe(&mut st, backend);
                        },
                        Stage::BFill { .. } => st.hit("bfill_internal_collect"),
                        Stage::Scan => st.hit("scan_lower_bound_zero"),
                        Stage::ToTrust => st.hit("to_trust_declared_length"),
                        Stage::VCut { .. } => st.hit("vcut_stage"),
                        _ => {},
                    }
                    if rem == 0 {
                        st.hit("wrap_on_exhausted");
                    }
                },
            }
        }
    }
    match &p.root {
        ViewOp::VDiff { n, .. } | ViewOp::VPct { n } => {
            if (n.unsigned_abs() as usize) > p.data.len() {
                st.fault("lag_beyond_len");
            }
            if *n == i32::MIN || *n == i32::MAX {
                st.fault("extreme_i32");
            }
        },
        ViewOp::VPart { k, .. } | ViewOp::VArgPart { k, .. } => {
            if *k >= p.data.len() {
                st.fault("k_ge_len");
            }
        },
        ViewOp::RollIter { w } => {
            if *w > p.data.len() {
                st.hit("window_gt_len");
            }
        },
        _ => {},
    }
    layout_probe(&mut st, &p.backend);
    if p.data.is_empty() {
        st.fault("empty_input");
    }
    if back_some > 0 {
        st.hit("back_pull");
    }
    st.items_pulled += probes.iter().map(|o| o.drained.len() as u64).sum::<u64>();
    sig.push('|');
    sig.push_str(&p.terminal.kind());

    // ---- terminal operation (only when every probe was clean)
    let complete = probes.len() == n_ops + 1 && viol.is_empty() && st.harness_error.is_none();
    if complete {
        let fin = probes.last().unwrap();
        let expected: &[Obs] = &fin.drained;
        if fin.capped {
            st.ended_early = Some("final stream not exhaustible within the drain limit".into());
        } else {
            match &p.terminal {
                Terminal::Drain => {},
                Terminal::Count | Terminal::Last | Terminal::ForEach => {
                    st.executions += 1;
                    st.hit("consuming_method_terminal");
                    match commit(p, expected.len()) {
                        Ok(c) => {
                            let ok = match &c.sink {
                                SinkOut::Counted(n) => *n == expected.len(),
                                SinkOut::Last(l) => match (l, expected.last()) {
                                    (None, None) => true,
                                    (Some(a), Some(b)) => a.same(b),
                                    _ => false,
                                },
                                SinkOut::Drained(d) => obs_seq_same(d, expected),
                                _ => true,
                            };
                            if !ok {
                                viol.push(Violation {
                                    props: vec!["C09"],
                                    oracle: "H1c",
                                    stage: blame_terminal(p),
                                    detail: format!(
                                        "{} on the stream gives {:?}, plain next()-iteration yields {} items [{}]",
                                        p.terminal.kind(),
                                        c.sink,
                                        expected.len(),
                                        short(expected)
                                    ),
                                });
                            }
                        },
                        Err(msg) => terminal_failure(&mut viol, &mut st, p, msg, expected),
                    }
                },
                Terminal::Drop => {
                    if !expected.is_empty() {
                        st.fault("early_drop");
                    }
                    st.executions += 1;
                    match commit(p, expected.len()) {
                        Ok(c) => {
                            if !c.double_drops.is_empty() {
                                viol.push(Violation {
                                    props: vec!["C19", "C09"],
                                    oracle: "K5",
                                    stage: stage_at(p, n_ops),
                                    detail: format!(
                                        "abandoning the stream dropped instances twice: {:?}",
                                        c.double_drops
                                    ),
                                });
                            }
                        },
                        Err(msg) => terminal_failure(&mut viol, &mut st, p, msg, expected),
                    }
                },
                Terminal::HandOff(sink) => {
                    if pulled_some > 0 {
                        st.fault("partial_then_handoff");
                        if back_some > 0 {
                            st.hit("handoff_after_back_pull");
                        }
                    }
                    sink_faults(&mut st, sink, expected);
                    st.executions += 1;
                    match commit(p, expected.len()) {
                        Ok(c) => {
                            fnv(&mut digest, format!("{:?}", c.sink).as_bytes());
                            check_sink(&mut viol, &mut st, p, sink, expected, &c)
                        },
                        Err(msg) => terminal_failure(&mut viol, &mut st, p, msg, expected),
                    }
                },
            }
        }
    }

    let mut fault_names: Vec<&str> = st.faults.keys().copied().collect();
    fault_names.sort();
    sig.push('|');
    sig.push_str(&fault_names.join(","));
    let mut h = 0xcbf2_9ce4_8422_2325u64;
    fnv(&mut h, sig.as_bytes());
    st.signature = h;
    st.digest = digest;
    st.nontrivial = pulled_some > 0 || !st.faults.is_empty();
    (viol, st)
}

fn layout_probe(st: &mut RunStats, b: &Backend) {
    match b {
        Backend::Deque { head } | Backend::ArcDeque { head } if *head > 0 => st.hit("layout_deque_rotated"),
        Backend::ArrayView { stride } if *stride < 0 => st.hit("layout_ndarray_reversed"),
        Backend::ArrayView { stride } if *stride > 1 => st.hit("layout_ndarray_strided"),
        Backend::ArcVec | Backend::ArcDeque { .. } => st.hit("layout_arc"),
        Backend::Polars { chunks } if !chunks.is_empty() => st.hit("layout_polars_multichunk"),
        Backend::OptOfVec | Backend::OptOfArray1 => st.hit("layout_optiter_view"),
        Backend::SliceRef | Backend::SliceMut => st.hit("layout_slice_ref_or_mut"),
        Backend::FixedArray => st.hit("layout_fixed_array"),
        Backend::NdViewMut => st.hit("layout_ndarray_view_mut"),
        _ => {},
    }
}

fn sink_faults(st: &mut RunStats, sink: &Sink, expected: &[Obs]) {
    let errs: Vec<usize> = expected.iter().enumerate().filter(|(_, o)| o.is_err()).map(|(i, _)| i).collect();
    if sink.fallible() && !errs.is_empty() {
        st.fault("err_item");
        if errs.len() > 1 {
            st.fault("multi_err");
        }
        if errs[0] == 0 {
            st.hit("err_at_first_position");
        }
        if *errs.last().unwrap() == expected.len() - 1 {
            st.hit("err_at_last_position");
        }
    }
    if let Sink::OptCollect(_) = sink {
        if expected.iter().any(|o| matches!(o, Obs::N)) {
            st.fault("none_item");
        }
    }
    if let Sink::Write { len, buf, slack } = sink {
        if *slack > 0 {
            st.hit("buffer_with_slack_capacity");
        }
        let m = expected.len();
        if *buf == BufKind::OwnedVec {
            if m > *len {
                st.fault("set_out_of_bounds");
            }
        } else if *len == 0 {
            st.fault("len_mismatch_zero_buffer");
        } else if m == *len {
            st.hit("write_len_match");
        } else if m == 1 {
            st.fault("broadcast_one");
        } else if m < *len {
            st.fault("len_mismatch_short");
        } else {
            st.fault("len_mismatch_long");
        }
    }
}

fn terminal_failure(viol: &mut Vec<Violation>, st: &mut RunStats, p: &Pipe, msg: String, expected: &[Obs]) {
    if msg.starts_with(HARNESS) {
        st.harness_error = Some(msg);
    } else if msg.starts_with("DOCUMENTED-ERR") || documented_panic(p, &msg, Some(expected)) {
        st.ended_early = Some(msg);
    } else {
        viol.push(Violation {
            props: vec!["C09", "C19"],
            oracle: "H4",
            stage: p.terminal.kind(),
            detail: format!("library panicked in the terminal operation: {msg}"),
        });
    }
}

fn check_sink(
    viol: &mut Vec<Violation>,
    st: &mut RunStats,
    p: &Pipe,
    sink: &Sink,
    expected: &[Obs],
    c: &CommitOut,
) {
    let stage = sink.kind();
    st.hit(match sink {
        Sink::Write { .. } => "oracle_K4_buffer_write",
        Sink::OptCollect(_) => "oracle_K3_option_collect",
        s if s.fallible() => "oracle_K2_first_error",
        s if s.trusts_hint() => "oracle_H2_trusted_collect",
        _ => "oracle_K1_plain_collect",
    });
    let both: Vec<&'static str> = if sink.trusts_hint() { vec!["C09", "C19"] } else { vec!["C19"] };

    // internal streams seen by the simulator-owned container
    for (i, rec) in c.sim.streams.iter().enumerate() {
        st.hints_checked += rec.hints.len() as u64;
        if rec.trusted {
            if let Some((y, h, total)) = rec.first_bad_hint() {
                // the stream the consumer handed off went wrong while the container pulled
                // from it: the same invariant as H1, attributed to the innermost culprit
                let mut q = p.clone();
                q.terminal = Terminal::Drain;
                q.ops.extend(std::iter::repeat_n(Op::Next, y.min(64)));
                let n = q.ops.len();
                viol.push(Violation {
                    props: vec!["C09"],
                    oracle: "H1",
                    stage: blame(&q, n, "H1"),
                    detail: format!(
                        "stream #{i} handed to {stage}: after {y} more items upper bound {h:?}, it yields {total} in total"
                    ),
                });
            }
        }
    }

    if !c.double_drops.is_empty() {
        viol.push(Violation {
            props: both.clone(),
            oracle: "K5",
            stage: stage.clone(),
            detail: format!("instances dropped twice: {:?}", c.double_drops),
        });
    }
    if !c.dead_in_result.is_empty() {
        viol.push(Violation {
            props: both.clone(),
            oracle: "K5",
            stage: stage.clone(),
            detail: format!("returned container holds dropped instances: {:?}", c.dead_in_result),
        });
    }
    if c.trk_leaked > 0 {
        st.hit("tracked_leak_after_run");
    }

    match (&c.sink, sink) {
        (SinkOut::Seq(got), Sink::OptCollect(_)) => {
            let want: Vec<Obs> = expected
                .iter()
                .map(|o| if matches!(o, Obs::N) { Obs::B(f64::NAN.to_bits()) } else { o.clone() })
                .collect();
            if !obs_seq_same(got, &want) {
                viol.push(Violation {
                    props: vec!["C19"],
                    oracle: "K3",
                    stage,
                    detail: format!("collect_vec1_opt: want [{}] got [{}]", short(&want), short(got)),
                });
            }
        },
        (SinkOut::Seq(got), _) => {
            if !obs_seq_same(got, expected) {
                viol.push(Violation {
                    props: both,
                    oracle: if sink.trusts_hint() { "H2" } else { "K1" },
                    stage,
                    detail: format!(
                        "collector returned {} items [{}], the stream holds {} items [{}]",
                        got.len(),
                        short(got),
                        expected.len(),
                        short(expected)
                    ),
                });
            }
        },
        (SinkOut::Res(got), _) => {
            let first_err = expected.iter().find(|o| o.is_err());
            match (first_err, got) {
                (Some(Obs::E(want)), Err(msg)) => {
                    if want != msg {
                        viol.push(Violation {
                            props: vec!["C19"],
                            oracle: "K2",
                            stage,
                            detail: format!("fallible collect returned error {msg:?}, the first error in the stream is {want:?}"),
                        });
                    }
                },
                (Some(Obs::E(want)), Ok(seq)) => viol.push(Violation {
                    props: vec!["C19"],
                    oracle: "K2",
                    stage,
                    detail: format!("fallible collect returned Ok([{}]) although the stream holds error {want:?}", short(seq)),
                }),
                (None, Ok(seq)) => {
                    if !obs_seq_same(seq, expected) {
                        viol.push(Violation {
                            props: both,
                            oracle: if sink.trusts_hint() { "H2" } else { "K1" },
                            stage,
                            detail: format!(
                                "fallible collect returned [{}], the stream holds [{}]",
                                short(seq),
                                short(expected)
                            ),
                        });
                    }
                },
                (None, Err(msg)) => viol.push(Violation {
                    props: vec!["C19"],
                    oracle: "K2",
                    stage,
                    detail: format!("fallible collect returned error {msg:?} on an error-free stream"),
                }),
                _ => unreachable!(),
            }
        },
        (SinkOut::Buf { result, slots, log, oob, twice, set_results }, Sink::Write { buf, len, .. }) => {
            let b = *len;
            let m = expected.len();
            let mut complain = |d: String| {
                viol.push(Violation { props: vec!["C19"], oracle: "K4", stage: stage.clone(), detail: d })
            };
            if slots.len() != b {
                complain(format!(
                    "buffer of length {b}: {} slots observed afterwards (a write landed outside the buffer's own slots, or the buffer changed length)",
                    slots.len()
                ));
                return;
            }
            let untouched = |s: &Option<Obs>| match s {
                None => true,
                Some(o) => sentinel_obs(o),
            };
            if *buf == BufKind::OwnedVec {
                for (i, ok) in set_results.iter().enumerate() {
                    if *ok != (i < b) {
                        complain(format!("UninitVec::set({i}, _) on a buffer of length {b} returned ok={ok}"));
                    }
                }
                for i in 0..b {
                    let fine = if i < m {
                        matches!(&slots[i], Some(o) if o.same(&expected[i]))
                    } else {
                        untouched(&slots[i])
                    };
                    if !fine {
                        complain(format!("slot {i} after set(): {:?}", slots[i]));
                        break;
                    }
                }
                return;
            }
            let want_ok = b == 0 || m == b || m == 1;
            // an empty buffer has no slot to fill: with a stream that is neither empty nor a
            // single item both answers satisfy the text ("fills every slot" holds vacuously,
            // "reports a length mismatch" is also true); nothing may be written either way
            let either = b == 0 && m > 1;
            if !either && want_ok != result.is_ok() {
                complain(format!(
                    "write of a stream of {m} items into a buffer of length {b} returned {result:?}"
                ));
                return;
            }
            if !oob.is_empty() {
                complain(format!("uset out of bounds at {oob:?} (buffer length {b})"));
            }
            if !twice.is_empty() {
                // wasteful (the first value is leaked) but every slot ends up filled: the
                // property does not forbid it
                st.hit("buffer_slot_written_twice");
            }
            if result.is_err() {
                // "reports a length mismatch without partial undefined state": some but not
                // all slots written is the partial state the property forbids
                let written = slots.iter().filter(|s| !untouched(s)).count();
                if written > 0 && written < b {
                    complain(format!(
                        "length mismatch reported (stream {m}, buffer {b}) after {written} of {b} slots had been written"
                    ));
                } else if written == b && b > 0 {
                    st.hit("mismatch_reported_after_filling_every_slot");
                }
            } else if b > 0 {
                for i in 0..b {
                    let want = if m == b { &expected[i] } else { &expected[0] };
                    let fine = matches!(&slots[i], Some(o) if o.same(want) && !sentinel_obs(o));
                    if !fine {
                        complain(format!(
                            "stream of {m} items into buffer of length {b}: slot {i} holds {:?}, expected {:?}",
                            slots[i], want
                        ));
                        break;
                    }
                }
                let _ = log;
            }
        },
        (other, _) => {
            st.harness_error = Some(format!("{HARNESS} sink {} produced {:?}", sink.kind(), other));
        },
    }
}
