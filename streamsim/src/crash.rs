//! Crash containment. A change to the library that corrupts memory can kill the process
//! (SIGSEGV, allocator abort, sanitizer abort). The batch runs in a child process; every
//! worker thread keeps a small ring of the runs it executed last, and a fatal-signal handler
//! prints that ring before the process dies, so the supervising process can turn the crash
//! into a violation with a replay file instead of dying with it.

use std::cell::Cell;

pub const RING: usize = 48;
pub const CRASH_EXIT: i32 = 71;

thread_local! {
    // (source index + 1, run index); 0 = empty slot
    static LAST: Cell<[(u32, u64); RING]> = const { Cell::new([(0, 0); RING]) };
    static POS: Cell<usize> = const { Cell::new(0) };
}

pub fn note_run(source_idx: u32, run: u64) {
    POS.with(|p| {
        let i = p.get();
        LAST.with(|l| {
            let mut a = l.get();
            a[i % RING] = (source_idx + 1, run);
            l.set(a);
        });
        p.set(i + 1);
    });
}

unsafe extern "C" {
    fn signal(signum: i32, handler: usize) -> usize;
    fn write(fd: i32, buf: *const u8, n: usize) -> isize;
    fn _exit(code: i32) -> !;
}

fn put(buf: &mut [u8], at: &mut usize, s: &[u8]) {
    for b in s {
        if *at < buf.len() {
            buf[*at] = *b;
            *at += 1;
        }
    }
}

fn put_num(buf: &mut [u8], at: &mut usize, mut n: u64) {
    let mut tmp = [0u8; 20];
    let mut i = 0;
    if n == 0 {
        tmp[0] = b'0';
        i = 1;
    }
    while n > 0 {
        tmp[i] = b'0' + (n % 10) as u8;
        n /= 10;
        i += 1;
    }
    while i > 0 {
        i -= 1;
        if *at < buf.len() {
            buf[*at] = tmp[i];
            *at += 1;
        }
    }
}

extern "C" fn on_fatal(sig: i32) {
    // no allocation here: format into a stack buffer and write(2)
    let mut buf = [0u8; 2048];
    let mut at = 0usize;
    put(&mut buf, &mut at, b"\nCRASH signal=");
    put_num(&mut buf, &mut at, sig as u64);
    put(&mut buf, &mut at, b" recent=");
    let pos = POS.with(|p| p.get());
    let ring = LAST.with(|l| l.get());
    // most recent first
    let n = pos.min(RING);
    for k in 0..n {
        let (s, r) = ring[(pos - 1 - k) % RING];
        if s == 0 {
            continue;
        }
        if k > 0 {
            put(&mut buf, &mut at, b",");
        }
        put_num(&mut buf, &mut at, (s - 1) as u64);
        put(&mut buf, &mut at, b":");
        put_num(&mut buf, &mut at, r);
    }
    put(&mut buf, &mut at, b"\n");
    unsafe {
        write(2, buf.as_ptr(), at);
        _exit(CRASH_EXIT);
    }
}

pub fn install() {
    // SIGILL 4, SIGABRT 6, SIGBUS 7, SIGFPE 8, SIGSEGV 11
    for sig in [4, 6, 7, 8, 11] {
        unsafe {
            signal(sig, on_fatal as usize);
        }
    }
}

/// parse the handler's line: returns (signal, [(source index, run)]) most recent first
pub fn parse_crash(stderr: &str) -> Option<(i32, Vec<(usize, u64)>)> {
    let line = stderr.lines().rev().find(|l| l.starts_with("CRASH signal="))?;
    let rest = line.strip_prefix("CRASH signal=")?;
    let (sig, recent) = rest.split_once(" recent=")?;
    let sig: i32 = sig.trim().parse().ok()?;
    let mut out = vec![];
    for item in recent.trim().split(',') {
        if let Some((s, r)) = item.split_once(':') {
            if let (Ok(s), Ok(r)) = (s.parse(), r.parse()) {
                out.push((s, r));
            }
        }
    }
    Some((sig, out))
}
