//! The program model: everything a run does is fixed in a `Program` before the run starts.
//! A program is the replay file. Executing one draws from no PRNG, reads no clock,
//! iterates no hash map and spawns no thread.

use crate::json::J;

#[derive(Clone, Copy, PartialEq, Eq, Debug, PartialOrd, Ord)]
pub enum Ty {
    F64,
    I32,
    OptF64,
    OptI32,
    /// drop-tracked opaque items (unique instance ids); only SimSource / plain containers
    Trk,
}

impl Ty {
    pub fn name(self) -> &'static str {
        match self {
            Ty::F64 => "f64",
            Ty::I32 => "i32",
            Ty::OptF64 => "opt_f64",
            Ty::OptI32 => "opt_i32",
            Ty::Trk => "tracked",
        }
    }
    pub fn parse(s: &str) -> Result<Ty, String> {
        Ok(match s {
            "f64" => Ty::F64,
            "i32" => Ty::I32,
            "opt_f64" => Ty::OptF64,
            "opt_i32" => Ty::OptI32,
            "tracked" => Ty::Trk,
            _ => return Err(format!("bad ty {s}")),
        })
    }
    pub fn nullable(self) -> bool {
        matches!(self, Ty::F64 | Ty::OptF64 | Ty::OptI32)
    }
    pub fn is_float(self) -> bool {
        matches!(self, Ty::F64 | Ty::OptF64)
    }
}

/// A value in a program. How it maps to an element depends on `Ty`:
/// `Null` is NaN for f64, `None` for the option types (never generated for i32).
#[derive(Clone, Debug, PartialEq)]
pub enum Val {
    Null,
    I(i64),
    F(f64),
}

impl Val {
    pub fn to_j(&self) -> J {
        match self {
            Val::Null => J::Null,
            Val::I(i) => J::Int(*i),
            Val::F(f) => {
                if f.is_nan() {
                    J::s("nan")
                } else if *f == f64::INFINITY {
                    J::s("inf")
                } else if *f == f64::NEG_INFINITY {
                    J::s("-inf")
                } else {
                    J::Float(*f)
                }
            },
        }
    }
    pub fn from_j(j: &J) -> Result<Val, String> {
        Ok(match j {
            J::Null => Val::Null,
            J::Int(i) => Val::I(*i),
            J::Float(f) => Val::F(*f),
            J::Str(s) if s == "nan" => Val::F(f64::NAN),
            J::Str(s) if s == "inf" => Val::F(f64::INFINITY),
            J::Str(s) if s == "-inf" => Val::F(f64::NEG_INFINITY),
            _ => return Err(format!("bad val {j:?}")),
        })
    }
    pub fn as_f64(&self) -> f64 {
        match self {
            Val::Null => f64::NAN,
            Val::I(i) => *i as f64,
            Val::F(f) => *f,
        }
    }
    pub fn as_i32(&self) -> i32 {
        match self {
            Val::Null => 0,
            Val::I(i) => *i as i32,
            Val::F(f) => *f as i32,
        }
    }
    pub fn is_null(&self) -> bool {
        matches!(self, Val::Null)
    }
}

fn vals_to_j(v: &[Val]) -> J {
    J::Arr(v.iter().map(Val::to_j).collect())
}
fn vals_from_j(j: &J) -> Result<Vec<Val>, String> {
    j.as_arr()?.iter().map(Val::from_j).collect()
}
fn optval_to_j(v: &Option<Val>) -> J {
    match v {
        None => J::Arr(vec![]),
        Some(v) => J::Arr(vec![v.to_j()]),
    }
}
// replay files written before the custom-mask fills carry no "mask" key: the default null mask
fn mask_from_j(j: &J) -> Result<u8, String> {
    match j.get("mask") {
        None => Ok(0),
        Some(m) => Ok(m.as_usize()?.min(2) as u8),
    }
}

fn optval_from_j(j: &J) -> Result<Option<Val>, String> {
    let a = j.as_arr()?;
    match a.len() {
        0 => Ok(None),
        1 => Ok(Some(Val::from_j(&a[0])?)),
        _ => Err("bad optional value".into()),
    }
}

/// Input containers (seam S2) and the simulator-owned source.
#[derive(Clone, Debug, PartialEq)]
pub enum Backend {
    Vec,
    ArcVec,
    /// `&[T]` (only `titer` / `map`: it is a TIter, not a Vec1View)
    SliceRef,
    /// `&mut [T]`
    SliceMut,
    /// `[T; N]` for N <= 6
    FixedArray,
    /// `ArrayViewMut1<T>` over an owned array
    NdViewMut,
    /// VecDeque whose ring buffer is rotated by `head` pushes/pops before filling
    Deque { head: usize },
    ArcDeque { head: usize },
    Array1,
    /// strided / reversed view into a larger owned array
    ArrayView { stride: i64 },
    /// `v.opt()` (OptIter) over a Vec / Array1, used as a Vec1View of options
    OptOfVec,
    OptOfArray1,
    /// simulator-owned honest stream (stub)
    Sim,
    /// simulator-owned container as *input* of a rolling scenario (every driver takes its default path)
    SimInput,
    /// Polars ChunkedArray split in chunks of the given lengths (feature `polars`)
    Polars { chunks: Vec<usize> },
}

impl Backend {
    pub fn kind(&self) -> &'static str {
        match self {
            Backend::Vec => "vec",
            Backend::ArcVec => "arc_vec",
            Backend::SliceRef => "slice_ref",
            Backend::SliceMut => "slice_mut",
            Backend::FixedArray => "fixed_array",
            Backend::NdViewMut => "nd_view_mut",
            Backend::Deque { .. } => "deque",
            Backend::ArcDeque { .. } => "arc_deque",
            Backend::Array1 => "array1",
            Backend::ArrayView { .. } => "array_view",
            Backend::OptOfVec => "opt_of_vec",
            Backend::OptOfArray1 => "opt_of_array1",
            Backend::Sim => "sim",
            Backend::SimInput => "sim_input",
            Backend::Polars { .. } => "polars",
        }
    }
    pub fn to_j(&self) -> J {
        match self {
            Backend::Deque { head } | Backend::ArcDeque { head } => {
                J::obj(vec![("k", J::s(self.kind())), ("head", J::Int(*head as i64))])
            },
            Backend::ArrayView { stride } => {
                J::obj(vec![("k", J::s(self.kind())), ("stride", J::Int(*stride))])
            },
            Backend::Polars { chunks } => J::obj(vec![
                ("k", J::s(self.kind())),
                ("chunks", J::Arr(chunks.iter().map(|c| J::Int(*c as i64)).collect())),
            ]),
            _ => J::obj(vec![("k", J::s(self.kind()))]),
        }
    }
    pub fn from_j(j: &J) -> Result<Backend, String> {
        let k = j.req("k")?.as_str()?;
        Ok(match k {
            "vec" => Backend::Vec,
            "arc_vec" => Backend::ArcVec,
            "slice_ref" => Backend::SliceRef,
            "slice_mut" => Backend::SliceMut,
            "fixed_array" => Backend::FixedArray,
            "nd_view_mut" => Backend::NdViewMut,
            "deque" => Backend::Deque { head: j.req("head")?.as_usize()? },
            "arc_deque" => Backend::ArcDeque { head: j.req("head")?.as_usize()? },
            "array1" => Backend::Array1,
            "array_view" => Backend::ArrayView { stride: j.req("stride")?.as_i64()? },
            "opt_of_vec" => Backend::OptOfVec,
            "opt_of_array1" => Backend::OptOfArray1,
            "sim" => Backend::Sim,
            "sim_input" => Backend::SimInput,
            "polars" => Backend::Polars {
                chunks: j
                    .req("chunks")?
                    .as_arr()?
                    .iter()
                    .map(|c| c.as_usize())
                    .collect::<Result<_, _>>()?,
            },
            _ => return Err(format!("bad backend {k}")),
        })
    }
}

/// What the library hands out from a container (first stage, or after `Remat`).
#[derive(Clone, Debug, PartialEq)]
pub enum ViewOp {
    Titer,
    TiterMap,
    IterCast,
    OptIterCast,
    ToOptIter,
    /// `v.opt().titer()`
    OptTiter,
    /// `(&v.opt()).into_iter()` -> Box<dyn TrustedLen>
    OptIntoIter,
    VDiff { n: i32, fill: Option<Val> },
    VPct { n: i32 },
    VPart { k: usize, sort: bool, rev: bool },
    VArgPart { k: usize, sort: bool, rev: bool },
    /// method 0 quantile, 1 median, 2 sigma
    Winsor { method: u8, p: Option<f64> },
    RollIter { w: usize },
}

impl ViewOp {
    pub fn kind(&self) -> &'static str {
        match self {
            ViewOp::Titer => "titer",
            ViewOp::TiterMap => "titer_map",
            ViewOp::IterCast => "iter_cast",
            ViewOp::OptIterCast => "opt_iter_cast",
            ViewOp::ToOptIter => "to_opt_iter",
            ViewOp::OptTiter => "opt_titer",
            ViewOp::OptIntoIter => "opt_into_iter",
            ViewOp::VDiff { .. } => "vdiff",
            ViewOp::VPct { .. } => "vpct_change",
            ViewOp::VPart { .. } => "vpartition",
            ViewOp::VArgPart { .. } => "varg_partition",
            ViewOp::Winsor { .. } => "winsorize",
            ViewOp::RollIter { .. } => "rolling_custom_iter",
        }
    }
    /// does the static type the library returns still offer DoubleEndedIterator?
    pub fn double_ended(&self) -> bool {
        matches!(
            self,
            ViewOp::Titer
                | ViewOp::TiterMap
                | ViewOp::IterCast
                | ViewOp::OptIterCast
                | ViewOp::ToOptIter
                | ViewOp::OptTiter
        )
    }
    /// element type of the stream this op yields on a container of `ty`
    pub fn out_ty(&self, ty: Ty) -> Option<Ty> {
        use Ty::*;
        Some(match self {
            ViewOp::Titer | ViewOp::TiterMap => ty,
            ViewOp::IterCast => match ty {
                F64 | I32 => F64,
                _ => return None,
            },
            ViewOp::OptIterCast => match ty {
                Trk => return None,
                _ => OptF64,
            },
            ViewOp::ToOptIter | ViewOp::OptTiter | ViewOp::OptIntoIter => match ty {
                F64 | OptF64 => OptF64,
                I32 | OptI32 => OptI32,
                Trk => return None,
            },
            ViewOp::VDiff { .. } => match ty {
                F64 | I32 => ty,
                _ => return None,
            },
            ViewOp::VPct { .. } => match ty {
                F64 | I32 => F64,
                _ => return None,
            },
            ViewOp::VPart { .. } => match ty {
                Trk => return None,
                _ => ty,
            },
            ViewOp::VArgPart { .. } => match ty {
                Trk => return None,
                _ => I32,
            },
            ViewOp::Winsor { .. } => match ty {
                F64 | I32 => F64,
                _ => return None,
            },
            ViewOp::RollIter { .. } => match ty {
                Trk => return None,
                _ => I32,
            },
        })
    }
    pub fn to_j(&self) -> J {
        let k = ("k", J::s(self.kind()));
        match self {
            ViewOp::VDiff { n, fill } => {
                J::obj(vec![k, ("n", J::Int(*n as i64)), ("fill", optval_to_j(fill))])
            },
            ViewOp::VPct { n } => J::obj(vec![k, ("n", J::Int(*n as i64))]),
            ViewOp::VPart { k: kk, sort, rev } | ViewOp::VArgPart { k: kk, sort, rev } => J::obj(vec![
                k,
                ("kth", J::Int(*kk as i64)),
                ("sort", J::Bool(*sort)),
                ("rev", J::Bool(*rev)),
            ]),
            ViewOp::Winsor { method, p } => J::obj(vec![
                k,
                ("method", J::Int(*method as i64)),
                ("p", match p {
                    None => J::Null,
                    Some(p) => Val::F(*p).to_j(),
                }),
            ]),
            ViewOp::RollIter { w } => J::obj(vec![k, ("w", J::Int(*w as i64))]),
            _ => J::obj(vec![k]),
        }
    }
    pub fn from_j(j: &J) -> Result<ViewOp, String> {
        let k = j.req("k")?.as_str()?;
        Ok(match k {
            "titer" => ViewOp::Titer,
            "titer_map" => ViewOp::TiterMap,
            "iter_cast" => ViewOp::IterCast,
            "opt_iter_cast" => ViewOp::OptIterCast,
            "to_opt_iter" => ViewOp::ToOptIter,
            "opt_titer" => ViewOp::OptTiter,
            "opt_into_iter" => ViewOp::OptIntoIter,
            "vdiff" => ViewOp::VDiff {
                n: j.req("n")?.as_i64()? as i32,
                fill: optval_from_j(j.req("fill")?)?,
            },
            "vpct_change" => ViewOp::VPct { n: j.req("n")?.as_i64()? as i32 },
            "vpartition" => ViewOp::VPart {
                k: j.req("kth")?.as_usize()?,
                sort: j.req("sort")?.as_bool()?,
                rev: j.req("rev")?.as_bool()?,
            },
            "varg_partition" => ViewOp::VArgPart {
                k: j.req("kth")?.as_usize()?,
                sort: j.req("sort")?.as_bool()?,
                rev: j.req("rev")?.as_bool()?,
            },
            "winsorize" => ViewOp::Winsor {
                method: j.req("method")?.as_i64()? as u8,
                p: match j.req("p")? {
                    J::Null => None,
                    v => Some(Val::from_j(v)?.as_f64()),
                },
            },
            "rolling_custom_iter" => ViewOp::RollIter { w: j.req("w")?.as_usize()? },
            _ => return Err(format!("bad view op {k}")),
        })
    }
}

/// Iterator-level stages (library adaptors and the std glue the library declares trusted).
#[derive(Clone, Debug, PartialEq)]
pub enum Stage {
    Abs,
    VAbs,
    Shift { n: i32, v: Val },
    VShift { n: i32, fill: Option<Val> },
    // mask 0: the default null mask (ffill / bfill); 1: ffill_mask / bfill_mask with a mask that flags
    // every item; 2: with a mask that flags exactly the non-null items
    FFill { fill: Option<Val>, mask: u8 },
    BFill { fill: Option<Val>, mask: u8 },
    Fill { v: Val },
    VClip { lo: Val, hi: Val },
    Rev,
    MapId,
    Take { k: usize },
    /// std `step_by(k)` (declared trusted-length by the library)
    StepBy { k: usize },
    /// std `scan` whose closure never stops early (declared trusted-length by the library;
    /// its size hint is (0, upper): lower and upper bound differ)
    Scan,
    /// `to_trust(len)` with the number of items really left (the safe way to declare a
    /// length; keeps the stream double-ended)
    ToTrust,
    /// turn the stream into an honest but *untrusted* iterator whose size hint is loose
    /// (`filter` dropping every m-th item: lower bound 0, upper bound too large)
    Loose { m: usize },
    /// collect what is left by plain safe iteration into a fresh container, continue with `op`
    Remat { backend: Backend, op: ViewOp },
    VCut { bins: Vec<Val>, labels: Vec<Val>, right: bool, add_bounds: bool },
}

impl Stage {
    pub fn kind(&self) -> &'static str {
        match self {
            Stage::Abs => "abs",
            Stage::VAbs => "vabs",
            Stage::Shift { .. } => "shift",
            Stage::VShift { .. } => "vshift",
            Stage::FFill { .. } => "ffill",
            Stage::BFill { .. } => "bfill",
            Stage::Fill { .. } => "fill",
            Stage::VClip { .. } => "vclip",
            Stage::Rev => "rev",
            Stage::MapId => "map",
            Stage::Take { .. } => "take",
            Stage::StepBy { .. } => "step_by",
            Stage::Scan => "scan",
            Stage::ToTrust => "to_trust",
            Stage::Loose { .. } => "filter",
            Stage::Remat { op, .. } => op.kind(),
            Stage::VCut { .. } => "vcut",
        }
    }
    /// stages that must preserve the number of remaining items (oracle H3)
    pub fn length_preserving(&self) -> bool {
        match self {
            Stage::Take { .. } | Stage::StepBy { .. } | Stage::Loose { .. } => false,
            Stage::Remat { op, .. } => matches!(
                op,
                ViewOp::Titer
                    | ViewOp::TiterMap
                    | ViewOp::IterCast
                    | ViewOp::OptIterCast
                    | ViewOp::ToOptIter
                    | ViewOp::OptTiter
                    | ViewOp::OptIntoIter
                    | ViewOp::VDiff { .. }
                    | ViewOp::VPct { .. }
                    | ViewOp::Winsor { .. }
                    | ViewOp::RollIter { .. }
            ),
            _ => true,
        }
    }
    pub fn to_j(&self) -> J {
        let k = ("k", J::s(match self {
            Stage::Remat { .. } => "remat",
            _ => self.kind(),
        }));
        match self {
            Stage::Shift { n, v } => J::obj(vec![k, ("n", J::Int(*n as i64)), ("v", v.to_j())]),
            Stage::VShift { n, fill } => {
                J::obj(vec![k, ("n", J::Int(*n as i64)), ("fill", optval_to_j(fill))])
            },
            Stage::FFill { fill, mask } | Stage::BFill { fill, mask } => {
                J::obj(vec![k, ("fill", optval_to_j(fill)), ("mask", J::Int(*mask as i64))])
            }
            Stage::Fill { v } => J::obj(vec![k, ("v", v.to_j())]),
            Stage::VClip { lo, hi } => J::obj(vec![k, ("lo", lo.to_j()), ("hi", hi.to_j())]),
            Stage::Take { k: kk } | Stage::StepBy { k: kk } | Stage::Loose { m: kk } => {
                J::obj(vec![k, ("n", J::Int(*kk as i64))])
            },
            Stage::Remat { backend, op } => {
                J::obj(vec![k, ("backend", backend.to_j()), ("op", op.to_j())])
            },
            Stage::VCut { bins, labels, right, add_bounds } => J::obj(vec![
                k,
                ("bins", vals_to_j(bins)),
                ("labels", vals_to_j(labels)),
                ("right", J::Bool(*right)),
                ("add_bounds", J::Bool(*add_bounds)),
            ]),
            _ => J::obj(vec![k]),
        }
    }
    pub fn from_j(j: &J) -> Result<Stage, String> {
        let k = j.req("k")?.as_str()?;
        Ok(match k {
            "abs" => Stage::Abs,
            "vabs" => Stage::VAbs,
            "shift" => Stage::Shift { n: j.req("n")?.as_i64()? as i32, v: Val::from_j(j.req("v")?)? },
            "vshift" => Stage::VShift {
                n: j.req("n")?.as_i64()? as i32,
                fill: optval_from_j(j.req("fill")?)?,
            },
            "ffill" => Stage::FFill { fill: optval_from_j(j.req("fill")?)?, mask: mask_from_j(j)? },
            "bfill" => Stage::BFill { fill: optval_from_j(j.req("fill")?)?, mask: mask_from_j(j)? },
            "fill" => Stage::Fill { v: Val::from_j(j.req("v")?)? },
            "vclip" => Stage::VClip {
                lo: Val::from_j(j.req("lo")?)?,
                hi: Val::from_j(j.req("hi")?)?,
            },
            "rev" => Stage::Rev,
            "map" => Stage::MapId,
            "take" => Stage::Take { k: j.req("n")?.as_usize()? },
            "step_by" => Stage::StepBy { k: j.req("n")?.as_usize()? },
            "scan" => Stage::Scan,
            "to_trust" => Stage::ToTrust,
            "filter" => Stage::Loose { m: j.req("n")?.as_usize()? },
            "remat" => Stage::Remat {
                backend: Backend::from_j(j.req("backend")?)?,
                op: ViewOp::from_j(j.req("op")?)?,
            },
            "vcut" => Stage::VCut {
                bins: vals_from_j(j.req("bins")?)?,
                labels: vals_from_j(j.req("labels")?)?,
                right: j.req("right")?.as_bool()?,
                add_bounds: j.req("add_bounds")?.as_bool()?,
            },
            _ => return Err(format!("bad stage {k}")),
        })
    }
}

/// One step of the simulated consumer (seam S4). The size hint is read after every step.
#[derive(Clone, Debug, PartialEq)]
pub enum Op {
    Next,
    NextBack,
    Nth(usize),
    NthBack(usize),
    Wrap(Stage),
}

impl Op {
    pub fn to_j(&self) -> J {
        match self {
            Op::Next => J::s("next"),
            Op::NextBack => J::s("next_back"),
            Op::Nth(k) => J::obj(vec![("nth", J::Int(*k as i64))]),
            Op::NthBack(k) => J::obj(vec![("nth_back", J::Int(*k as i64))]),
            Op::Wrap(s) => J::obj(vec![("wrap", s.to_j())]),
        }
    }
    pub fn from_j(j: &J) -> Result<Op, String> {
        match j {
            J::Str(s) if s == "next" => Ok(Op::Next),
            J::Str(s) if s == "next_back" => Ok(Op::NextBack),
            J::Obj(_) => {
                if let Some(k) = j.get("nth") {
                    Ok(Op::Nth(k.as_usize()?))
                } else if let Some(k) = j.get("nth_back") {
                    Ok(Op::NthBack(k.as_usize()?))
                } else if let Some(s) = j.get("wrap") {
                    Ok(Op::Wrap(Stage::from_j(s)?))
                } else {
                    Err(format!("bad op {j:?}"))
                }
            },
            _ => Err(format!("bad op {j:?}")),
        }
    }
    pub fn letter(&self) -> char {
        match self {
            Op::Next => 'F',
            Op::NextBack => 'B',
            Op::Nth(_) => 'N',
            Op::NthBack(_) => 'M',
            Op::Wrap(_) => 'W',
        }
    }
}

#[derive(Clone, Copy, Debug, PartialEq, Eq, PartialOrd, Ord)]
pub enum Container {
    Vec,
    Deque,
    Array1,
    /// simulator-owned implementation of the library's Vec1 trait
    Sim,
    /// simulator-owned container that inherits every default method of Vec1
    Plain,
    Polars,
}

impl Container {
    pub fn name(self) -> &'static str {
        match self {
            Container::Vec => "vec",
            Container::Deque => "deque",
            Container::Array1 => "array1",
            Container::Sim => "sim",
            Container::Plain => "plain",
            Container::Polars => "polars",
        }
    }
    pub fn parse(s: &str) -> Result<Container, String> {
        Ok(match s {
            "vec" => Container::Vec,
            "deque" => Container::Deque,
            "array1" => Container::Array1,
            "sim" => Container::Sim,
            "plain" => Container::Plain,
            "polars" => Container::Polars,
            _ => return Err(format!("bad container {s}")),
        })
    }
}

#[derive(Clone, Copy, Debug, PartialEq, Eq, PartialOrd, Ord)]
pub enum BufKind {
    /// `&mut [MaybeUninit<T>]` from `Vec::uninit`
    Slice,
    /// `&mut big[1..1 + len]`: a sub-slice of a larger uninitialised allocation
    SubSlice,
    /// `&mut VecDeque<MaybeUninit<T>>`
    Deque,
    /// `ArrayViewMut1<MaybeUninit<T>>`
    NdView,
    /// a strided `ArrayViewMut1<MaybeUninit<T>>` into a larger buffer (every 2nd slot)
    NdStrided,
    /// a reversed (stride -1) `ArrayViewMut1<MaybeUninit<T>>`
    NdReversed,
    /// simulator-owned logging buffer
    Sim,
    /// `UninitVec::set` / `uset` on the owned uninit container, then `assume_init`
    OwnedVec,
}

impl BufKind {
    pub fn name(self) -> &'static str {
        match self {
            BufKind::Slice => "slice",
            BufKind::SubSlice => "subslice",
            BufKind::Deque => "deque",
            BufKind::NdView => "ndview",
            BufKind::NdStrided => "ndstrided",
            BufKind::NdReversed => "ndreversed",
            BufKind::Sim => "sim",
            BufKind::OwnedVec => "owned_vec",
        }
    }
    pub fn parse(s: &str) -> Result<BufKind, String> {
        Ok(match s {
            "slice" => BufKind::Slice,
            "subslice" => BufKind::SubSlice,
            "deque" => BufKind::Deque,
            "ndview" => BufKind::NdView,
            "ndstrided" => BufKind::NdStrided,
            "ndreversed" => BufKind::NdReversed,
            "sim" => BufKind::Sim,
            "owned_vec" => BufKind::OwnedVec,
            _ => return Err(format!("bad buf {s}")),
        })
    }
}

/// Library sinks (collectors and buffer writers).
#[derive(Clone, Debug, PartialEq)]
pub enum Sink {
    /// `collect_trusted_to_vec`
    TrustedToVec,
    /// `collect_trusted_vec1::<C>`
    TrustedVec1(Container),
    /// `collect_vec1::<C>` (plain)
    PlainVec1(Container),
    /// `collect_vec1_with_len::<C>(len = items really remaining)`
    WithLen(Container),
    /// `collect_vec1_opt::<C>` (stream of Option<T>)
    OptCollect(Container),
    /// `try_collect_trusted_to_vec`
    TryTrustedToVec,
    /// `try_collect_trusted_vec1::<C>`
    TryTrusted(Container),
    /// `try_collect_vec1::<C>`
    TryPlain(Container),
    /// `write` into an uninitialised caller buffer of length `len` (`slack`: extra capacity the
    /// caller's Vec-backed buffer happens to have)
    Write { buf: BufKind, len: usize, slack: usize },
}

impl Sink {
    pub fn kind(&self) -> String {
        match self {
            Sink::TrustedToVec => "collect_trusted_to_vec".into(),
            Sink::TrustedVec1(c) => format!("collect_trusted_vec1<{}>", c.name()),
            Sink::PlainVec1(c) => format!("collect_vec1<{}>", c.name()),
            Sink::WithLen(c) => format!("collect_vec1_with_len<{}>", c.name()),
            Sink::OptCollect(c) => format!("collect_vec1_opt<{}>", c.name()),
            Sink::TryTrustedToVec => "try_collect_trusted_to_vec".into(),
            Sink::TryTrusted(c) => format!("try_collect_trusted_vec1<{}>", c.name()),
            Sink::TryPlain(c) => format!("try_collect_vec1<{}>", c.name()),
            Sink::Write { buf, .. } => format!("write<{}>", buf.name()),
        }
    }
    pub fn fallible(&self) -> bool {
        matches!(self, Sink::TryTrustedToVec | Sink::TryTrusted(_) | Sink::TryPlain(_))
    }
    /// does this sink trust the size hint with raw pointers?
    pub fn trusts_hint(&self) -> bool {
        match self {
            Sink::TrustedToVec | Sink::TryTrustedToVec => true,
            Sink::TrustedVec1(c) | Sink::TryTrusted(c) | Sink::WithLen(c) => !matches!(c, Container::Sim | Container::Plain),
            _ => false,
        }
    }
    pub fn to_j(&self) -> J {
        match self {
            Sink::TrustedToVec => J::obj(vec![("k", J::s("trusted_to_vec"))]),
            Sink::TryTrustedToVec => J::obj(vec![("k", J::s("try_trusted_to_vec"))]),
            Sink::TrustedVec1(c) => J::obj(vec![("k", J::s("trusted_vec1")), ("c", J::s(c.name()))]),
            Sink::PlainVec1(c) => J::obj(vec![("k", J::s("plain_vec1")), ("c", J::s(c.name()))]),
            Sink::WithLen(c) => J::obj(vec![("k", J::s("with_len")), ("c", J::s(c.name()))]),
            Sink::OptCollect(c) => J::obj(vec![("k", J::s("opt_collect")), ("c", J::s(c.name()))]),
            Sink::TryTrusted(c) => J::obj(vec![("k", J::s("try_trusted")), ("c", J::s(c.name()))]),
            Sink::TryPlain(c) => J::obj(vec![("k", J::s("try_plain")), ("c", J::s(c.name()))]),
            Sink::Write { buf, len, slack } => J::obj(vec![
                ("k", J::s("write")),
                ("buf", J::s(buf.name())),
                ("len", J::Int(*len as i64)),
                ("slack", J::Int(*slack as i64)),
            ]),
        }
    }
    pub fn from_j(j: &J) -> Result<Sink, String> {
        let k = j.req("k")?.as_str()?;
        let c = || -> Result<Container, String> { Container::parse(j.req("c")?.as_str()?) };
        Ok(match k {
            "trusted_to_vec" => Sink::TrustedToVec,
            "try_trusted_to_vec" => Sink::TryTrustedToVec,
            "trusted_vec1" => Sink::TrustedVec1(c()?),
            "plain_vec1" => Sink::PlainVec1(c()?),
            "with_len" => Sink::WithLen(c()?),
            "opt_collect" => Sink::OptCollect(c()?),
            "try_trusted" => Sink::TryTrusted(c()?),
            "try_plain" => Sink::TryPlain(c()?),
            "write" => Sink::Write {
                buf: BufKind::parse(j.req("buf")?.as_str()?)?,
                len: j.req("len")?.as_usize()?,
                slack: j.get("slack").map(|v| v.as_usize()).transpose()?.unwrap_or(0),
            },
            _ => return Err(format!("bad sink {k}")),
        })
    }
}

#[derive(Clone, Debug, PartialEq)]
pub enum Terminal {
    /// count the rest by plain safe iteration
    Drain,
    /// consume the rest with `Iterator::count`
    Count,
    /// consume the rest with `Iterator::last`
    Last,
    /// consume the rest with `Iterator::for_each` (internal iteration)
    ForEach,
    /// abandon the stream (cancellation)
    Drop,
    /// give what is left to a library sink
    HandOff(Sink),
}

impl Terminal {
    pub fn to_j(&self) -> J {
        match self {
            Terminal::Drain => J::s("drain"),
            Terminal::Count => J::s("count"),
            Terminal::Last => J::s("last"),
            Terminal::ForEach => J::s("for_each"),
            Terminal::Drop => J::s("drop"),
            Terminal::HandOff(s) => J::obj(vec![("handoff", s.to_j())]),
        }
    }
    pub fn from_j(j: &J) -> Result<Terminal, String> {
        match j {
            J::Str(s) if s == "drain" => Ok(Terminal::Drain),
            J::Str(s) if s == "count" => Ok(Terminal::Count),
            J::Str(s) if s == "last" => Ok(Terminal::Last),
            J::Str(s) if s == "for_each" => Ok(Terminal::ForEach),
            J::Str(s) if s == "drop" => Ok(Terminal::Drop),
            _ => Ok(Terminal::HandOff(Sink::from_j(j.req("handoff")?)?)),
        }
    }
    pub fn kind(&self) -> String {
        match self {
            Terminal::Drain => "drain".into(),
            Terminal::Count => "count".into(),
            Terminal::Last => "last".into(),
            Terminal::ForEach => "for_each".into(),
            Terminal::Drop => "drop".into(),
            Terminal::HandOff(s) => s.kind(),
        }
    }
}

/// source -> pipeline -> consumer -> sink
#[derive(Clone, Debug, PartialEq)]
pub struct Pipe {
    pub ty: Ty,
    pub data: Vec<Val>,
    /// positions at which the simulator-owned source yields `Err` (Sim backend only);
    /// a non-empty list or `fallible` makes the root stream a stream of `TResult<T>`
    pub errs: Vec<usize>,
    pub fallible: bool,
    pub backend: Backend,
    pub root: ViewOp,
    pub ops: Vec<Op>,
    pub terminal: Terminal,
}

#[derive(Clone, Debug, PartialEq)]
pub enum GenKind {
    /// `Vec1Create::range(start, end, step)`
    Range { start: Option<Val>, end: Val, step: Option<Val> },
    /// `Vec1Create::linspace(start, end, n)`
    Linspace { start: Option<Val>, end: Val, n: usize },
    /// `Vec1::full(len, v)`
    Full { len: usize, v: Val },
    /// `Vec1::empty()`
    Empty,
    /// `collect_vec1_opt` of a stream whose i-th item is `None` where `mask[i]` (element types
    /// String, f32, f64: the result must hold the element type's own null there)
    OptCollect { mask: Vec<bool> },
}

/// element type of a generator scenario (richer than `Ty`: the generators are generic over Number)
#[derive(Clone, Copy, Debug, PartialEq, Eq, PartialOrd, Ord)]
pub enum GenTy {
    F64,
    F32,
    I32,
    I64,
    Usize,
    OptF64,
    OptI32,
    /// drop-tracked items (only `full` / `empty`)
    Trk,
    /// `String` (only the optional collector: its null is the string "None")
    Str,
}

impl GenTy {
    pub fn name(self) -> &'static str {
        match self {
            GenTy::F64 => "f64",
            GenTy::F32 => "f32",
            GenTy::I32 => "i32",
            GenTy::I64 => "i64",
            GenTy::Usize => "usize",
            GenTy::OptF64 => "opt_f64",
            GenTy::OptI32 => "opt_i32",
            GenTy::Trk => "tracked",
            GenTy::Str => "string",
        }
    }
    pub fn parse(s: &str) -> Result<GenTy, String> {
        Ok(match s {
            "f64" => GenTy::F64,
            "f32" => GenTy::F32,
            "i32" => GenTy::I32,
            "i64" => GenTy::I64,
            "usize" => GenTy::Usize,
            "opt_f64" => GenTy::OptF64,
            "opt_i32" => GenTy::OptI32,
            "tracked" => GenTy::Trk,
            "string" => GenTy::Str,
            _ => return Err(format!("bad gen ty {s}")),
        })
    }
    pub fn is_float(self) -> bool {
        matches!(self, GenTy::F64 | GenTy::F32 | GenTy::OptF64)
    }
}

/// generator -> container (the simulator-owned container interrogates the private iterator)
#[derive(Clone, Debug, PartialEq)]
pub struct Gen {
    pub ty: GenTy,
    pub kind: GenKind,
    pub out: Container,
}

/// rolling driver default path -> simulator-owned container (internal lazy iterators)
#[derive(Clone, Debug, PartialEq)]
pub struct Roll {
    pub ty: Ty,
    pub data: Vec<Val>,
    pub backend: Backend,
    /// 0 rolling_apply, 1 rolling_apply_idx, 2 rolling2_apply, 3 rolling2_apply_idx,
    /// 4 rolling_custom, 5 rolling2_custom, 6.. selected ts_* functions
    pub driver: u8,
    pub window: usize,
    /// two-series drivers: the second series has `len + other_delta` items (clamped at 0)
    pub other_delta: i64,
    /// caller-buffer scenarios: the buffer has `len + buf_delta` slots (clamped at 0)
    pub buf_delta: i64,
    pub out: Container,
}

#[derive(Clone, Debug, PartialEq)]
pub enum Program {
    Pipe(Pipe),
    Gen(Gen),
    Roll(Roll),
    Typed(crate::typed::Typed),
}

impl Program {
    pub fn to_j(&self) -> J {
        match self {
            Program::Typed(t) => t.to_j(),
            Program::Pipe(p) => J::obj(vec![
                ("kind", J::s("pipe")),
                ("ty", J::s(p.ty.name())),
                ("data", vals_to_j(&p.data)),
                ("errs", J::Arr(p.errs.iter().map(|e| J::Int(*e as i64)).collect())),
                ("fallible", J::Bool(p.fallible)),
                ("backend", p.backend.to_j()),
                ("root", p.root.to_j()),
                ("ops", J::Arr(p.ops.iter().map(Op::to_j).collect())),
                ("terminal", p.terminal.to_j()),
            ]),
            Program::Gen(g) => {
                let mut o = vec![("kind", J::s("gen")), ("ty", J::s(g.ty.name()))];
                match &g.kind {
                    GenKind::Range { start, end, step } => {
                        o.push(("gen", J::s("range")));
                        o.push(("start", optval_to_j(start)));
                        o.push(("end", end.to_j()));
                        o.push(("step", optval_to_j(step)));
                    },
                    GenKind::Linspace { start, end, n } => {
                        o.push(("gen", J::s("linspace")));
                        o.push(("start", optval_to_j(start)));
                        o.push(("end", end.to_j()));
                        o.push(("n", J::Int(*n as i64)));
                    },
                    GenKind::Full { len, v } => {
                        o.push(("gen", J::s("full")));
                        o.push(("len", J::Int(*len as i64)));
                        o.push(("v", v.to_j()));
                    },
                    GenKind::Empty => o.push(("gen", J::s("empty"))),
                    GenKind::OptCollect { mask } => {
                        o.push(("gen", J::s("opt_collect")));
                        o.push(("mask", J::Arr(mask.iter().map(|b| J::Bool(*b)).collect())));
                    },
                }
                o.push(("out", J::s(g.out.name())));
                J::obj(o)
            },
            Program::Roll(r) => J::obj(vec![
                ("kind", J::s("roll")),
                ("ty", J::s(r.ty.name())),
                ("data", vals_to_j(&r.data)),
                ("backend", r.backend.to_j()),
                ("driver", J::Int(r.driver as i64)),
                ("window", J::Int(r.window as i64)),
                ("other_delta", J::Int(r.other_delta)),
                ("buf_delta", J::Int(r.buf_delta)),
                ("out", J::s(r.out.name())),
            ]),
        }
    }

    pub fn from_j(j: &J) -> Result<Program, String> {
        let kind = j.req("kind")?.as_str()?;
        match kind {
            "pipe" => Ok(Program::Pipe(Pipe {
                ty: Ty::parse(j.req("ty")?.as_str()?)?,
                data: vals_from_j(j.req("data")?)?,
                errs: j
                    .req("errs")?
                    .as_arr()?
                    .iter()
                    .map(|e| e.as_usize())
                    .collect::<Result<_, _>>()?,
                fallible: j.req("fallible")?.as_bool()?,
                backend: Backend::from_j(j.req("backend")?)?,
                root: ViewOp::from_j(j.req("root")?)?,
                ops: j.req("ops")?.as_arr()?.iter().map(Op::from_j).collect::<Result<_, _>>()?,
                terminal: Terminal::from_j(j.req("terminal")?)?,
            })),
            "gen" => {
                let g = j.req("gen")?.as_str()?;
                let kind = match g {
                    "range" => GenKind::Range {
                        start: optval_from_j(j.req("start")?)?,
                        end: Val::from_j(j.req("end")?)?,
                        step: optval_from_j(j.req("step")?)?,
                    },
                    "linspace" => GenKind::Linspace {
                        start: optval_from_j(j.req("start")?)?,
                        end: Val::from_j(j.req("end")?)?,
                        n: j.req("n")?.as_usize()?,
                    },
                    "full" => GenKind::Full {
                        len: j.req("len")?.as_usize()?,
                        v: Val::from_j(j.req("v")?)?,
                    },
                    "empty" => GenKind::Empty,
                    "opt_collect" => GenKind::OptCollect {
                        mask: j.req("mask")?.as_arr()?.iter().map(|b| b.as_bool()).collect::<Result<_, _>>()?,
                    },
                    _ => return Err(format!("bad generator {g}")),
                };
                Ok(Program::Gen(Gen {
                    ty: GenTy::parse(j.req("ty")?.as_str()?)?,
                    kind,
                    out: Container::parse(j.req("out")?.as_str()?)?,
                }))
            },
            "roll" => Ok(Program::Roll(Roll {
                ty: Ty::parse(j.req("ty")?.as_str()?)?,
                data: vals_from_j(j.req("data")?)?,
                backend: Backend::from_j(j.req("backend")?)?,
                driver: j.req("driver")?.as_i64()? as u8,
                window: j.req("window")?.as_usize()?,
                other_delta: j.get("other_delta").map(|v| v.as_i64()).transpose()?.unwrap_or(0),
                buf_delta: j.get("buf_delta").map(|v| v.as_i64()).transpose()?.unwrap_or(0),
                out: Container::parse(j.req("out")?.as_str()?)?,
            })),
            "typed" => Ok(Program::Typed(crate::typed::Typed::from_j(j)?)),
            _ => Err(format!("bad program kind {kind}")),
        }
    }
}
