//! Generator scenarios (range / linspace / full / empty) and rolling-driver scenarios: the
//! library builds a lazy iterator internally and hands it to the output container; with the
//! simulator-owned container as output type the simulator is the consumer of that iterator.

use std::collections::VecDeque;
use std::sync::Arc;

use tea_core::export::ndarray::Array1;
use tea_core::prelude::*;
use tea_rolling::*;

use crate::check::{RunStats, Violation, fnv};
use crate::elem::*;
use crate::exec::{HARNESS, guarded};
use crate::program::*;
use crate::simvec::*;

// ---------------------------------------------------------------------------------------
// generators

trait NumFromVal: Sized {
    fn nfv(v: &Val) -> Self;
}
impl NumFromVal for f64 {
    fn nfv(v: &Val) -> f64 {
        v.as_f64()
    }
}
impl NumFromVal for f32 {
    fn nfv(v: &Val) -> f32 {
        v.as_f64() as f32
    }
}
impl NumFromVal for i32 {
    fn nfv(v: &Val) -> i32 {
        v.as_i32()
    }
}
impl NumFromVal for i64 {
    fn nfv(v: &Val) -> i64 {
        match v {
            Val::I(i) => *i,
            other => other.as_f64() as i64,
        }
    }
}
impl NumFromVal for usize {
    fn nfv(v: &Val) -> usize {
        match v {
            Val::I(i) => *i as usize,
            other => other.as_f64() as usize,
        }
    }
}

trait SeqObs {
    fn seq(&self) -> Vec<Obs>;
}
impl<T: Obsable> SeqObs for Vec<T> {
    fn seq(&self) -> Vec<Obs> {
        self.iter().map(|x| x.obs()).collect()
    }
}
impl<T: Obsable> SeqObs for VecDeque<T> {
    fn seq(&self) -> Vec<Obs> {
        self.iter().map(|x| x.obs()).collect()
    }
}
impl<T: Obsable> SeqObs for Array1<T> {
    fn seq(&self) -> Vec<Obs> {
        self.iter().map(|x| x.obs()).collect()
    }
}
impl<T: Obsable> SeqObs for PlainVec<T> {
    fn seq(&self) -> Vec<Obs> {
        self.items.iter().map(|x| x.obs()).collect()
    }
}
impl<T: Obsable> SeqObs for SimVec<T> {
    fn seq(&self) -> Vec<Obs> {
        self.items.iter().map(|x| x.obs()).collect()
    }
}

fn build_gen<T, C>(kind: &GenKind) -> Vec<Obs>
where
    T: IsNone + Clone,
    T::Inner: Number + NumFromVal,
    usize: Cast<T::Inner>,
    // not needed today; keeps the engine building if the front end asks for it
    f64: Cast<T::Inner>,
    C: Vec1<T> + SeqObs,
{
    let c: C = match kind {
        GenKind::Range { start, end, step } => <C as Vec1Create<T>>::range(
            start.as_ref().map(<T::Inner>::nfv),
            <T::Inner>::nfv(end),
            step.as_ref().map(<T::Inner>::nfv),
        ),
        GenKind::Linspace { start, end, n } => {
            <C as Vec1Create<T>>::linspace(start.as_ref().map(<T::Inner>::nfv), <T::Inner>::nfv(end), *n)
        },
        GenKind::Full { len, v } => <C as Vec1<T>>::full(*len, T::from_inner(<T::Inner>::nfv(v))),
        GenKind::Empty => <C as Vec1<T>>::empty(),
        GenKind::OptCollect { .. } => panic!("{} optional collect is handled separately", HARNESS),
    };
    c.seq()
}

fn run_gen(g: &Gen, out: Container) -> Result<Vec<Obs>, String> {
    macro_rules! by_container {
        ($t:ty) => {
            match out {
                Container::Vec => build_gen::<$t, Vec<$t>>(&g.kind),
                Container::Deque => build_gen::<$t, VecDeque<$t>>(&g.kind),
                Container::Array1 => build_gen::<$t, Array1<$t>>(&g.kind),
                Container::Sim => build_gen::<$t, SimVec<$t>>(&g.kind),
                Container::Plain => build_gen::<$t, PlainVec<$t>>(&g.kind),
                Container::Polars => return polars_gen(g),
            }
        };
    }
    guarded(|| {
        Ok(match g.ty {
            GenTy::F64 => by_container!(f64),
            GenTy::F32 => by_container!(f32),
            GenTy::I32 => by_container!(i32),
            GenTy::I64 => by_container!(i64),
            GenTy::Usize => by_container!(usize),
            GenTy::OptF64 => by_container!(Option<f64>),
            GenTy::OptI32 => by_container!(Option<i32>),
            GenTy::Trk | GenTy::Str => return Err(format!("{HARNESS} handled separately")),
        })
    })
    .and_then(|r| r)
}

#[cfg(feature = "polars")]
fn polars_gen(g: &Gen) -> Result<Vec<Obs>, String> {
    use tea_core::export::polars::prelude::*;
    struct P<T: PolarsNumericType>(ChunkedArray<T>);
    fn seq<T: PolarsNumericType>(c: &ChunkedArray<T>) -> Vec<Obs>
    where
        T::Native: Obsable,
    {
        c.into_iter().map(|v| v.obs()).collect()
    }
    let _ = |p: P<Float64Type>| p.0.len();
    fn go<T, C>(kind: &GenKind) -> C
    where
        T: IsNone + Clone,
        T::Inner: Number + NumFromVal,
        usize: Cast<T::Inner>,
        f64: Cast<T::Inner>,
        C: Vec1<T>,
    {
        match kind {
            GenKind::Range { start, end, step } => <C as Vec1Create<T>>::range(
                start.as_ref().map(<T::Inner>::nfv),
                <T::Inner>::nfv(end),
                step.as_ref().map(<T::Inner>::nfv),
            ),
            GenKind::Linspace { start, end, n } => {
                <C as Vec1Create<T>>::linspace(start.as_ref().map(<T::Inner>::nfv), <T::Inner>::nfv(end), *n)
            },
            GenKind::Full { len, v } => <C as Vec1<T>>::full(*len, T::from_inner(<T::Inner>::nfv(v))),
            GenKind::Empty => <C as Vec1<T>>::empty(),
            GenKind::OptCollect { .. } => panic!("{} optional collect is handled separately", HARNESS),
        }
    }
    match g.ty {
        GenTy::OptF64 => Ok(seq(&go::<Option<f64>, ChunkedArray<Float64Type>>(&g.kind))),
        GenTy::OptI32 => Ok(seq(&go::<Option<i32>, ChunkedArray<Int32Type>>(&g.kind))),
        _ => Err(format!("{HARNESS} polars columns hold options")),
    }
}

#[cfg(not(feature = "polars"))]
fn polars_gen(_: &Gen) -> Result<Vec<Obs>, String> {
    Err(format!("{HARNESS} built without the polars feature"))
}

fn obs_num(o: &Obs, float: bool) -> Option<f64> {
    match o {
        Obs::B(b) => Some(if float { f64::from_bits(*b) } else { *b as i64 as f64 }),
        _ => None,
    }
}

/// reference model for clause 1 of C19: returns Err(description) when `items` is not the
/// requested sequence
fn gen_oracle(g: &Gen, items: &[Obs]) -> Result<(), String> {
    let float = g.ty.is_float();
    let tol = if g.ty == GenTy::F32 { 1e-4 } else { 1e-9 };
    let nums: Vec<f64> = match items.iter().map(|o| obs_num(o, float)).collect::<Option<Vec<_>>>() {
        Some(v) => v,
        None => return Err("generator yielded a null / error item".into()),
    };
    match &g.kind {
        GenKind::Range { start, end, step } => {
            let a = start.as_ref().map(|v| v.as_f64()).unwrap_or(0.0);
            let b = end.as_f64();
            let s = step.as_ref().map(|v| v.as_f64()).unwrap_or(1.0);
            let ival = |v: &Option<Val>, d: i128| match v {
                Some(Val::I(i)) => Some(*i as i128),
                None => Some(d),
                _ => None,
            };
            let big = |v: &Option<Val>| matches!(v, Some(Val::I(i)) if i.unsigned_abs() > (1u64 << 52));
            if !float && (big(start) || big(&Some(end.clone())) || big(step)) {
                // magnitudes beyond f64's exact integers: compare in integer arithmetic
                let (Some(a), Some(b), Some(s)) = (ival(start, 0), ival(&Some(end.clone()), 0), ival(step, 1)) else {
                    return Err(format!("{HARNESS} integer range with non-integer bounds"));
                };
                let mut want: Vec<i128> = vec![];
                let mut x = a;
                while (s > 0 && x < b) || (s < 0 && x > b) {
                    want.push(x);
                    x += s;
                    if want.len() > DRAIN_LIMIT {
                        break;
                    }
                }
                let got: Vec<i128> = items
                    .iter()
                    .map(|o| match o {
                        Obs::B(bits) => *bits as i64 as i128,
                        _ => i128::MIN,
                    })
                    .collect();
                if want != got {
                    return Err(format!(
                        "range({a}, {b}, {s}) should be {} elements {:?}.., got {} elements {:?}..",
                        want.len(),
                        &want[..want.len().min(12)],
                        got.len(),
                        &got[..got.len().min(12)]
                    ));
                }
            } else if !float {
                let mut want = vec![];
                let mut x = a;
                while (s > 0.0 && x < b) || (s < 0.0 && x > b) {
                    want.push(x);
                    x += s;
                    if want.len() > DRAIN_LIMIT {
                        break;
                    }
                }
                if want != nums {
                    return Err(format!(
                        "range({a}, {b}, {s}) should be {} elements {:?}.., got {} elements {:?}..",
                        want.len(),
                        &want[..want.len().min(12)],
                        nums.len(),
                        &nums[..nums.len().min(12)]
                    ));
                }
            } else {
                let q = (b - a) / s;
                let (lo, hi) = if q <= 0.0 {
                    (0usize, 0usize)
                } else {
                    let slack = tol * q.abs().max(1.0);
                    (((q - slack).ceil().max(0.0)) as usize, ((q + slack).ceil().max(0.0)) as usize)
                };
                if nums.len() < lo || nums.len() > hi {
                    return Err(format!(
                        "range({a}, {b}, {s}) should have {lo}..={hi} elements, got {} ({nums:?})",
                        nums.len()
                    ));
                }
                for (i, x) in nums.iter().enumerate() {
                    let w = a + s * i as f64;
                    if (x - w).abs() > tol * w.abs().max(1.0) * 4.0 {
                        return Err(format!("range({a}, {b}, {s})[{i}] should be {w}, got {x}"));
                    }
                }
            }
        },
        GenKind::Linspace { start, end, n } => {
            let a = start.as_ref().map(|v| v.as_f64()).unwrap_or(0.0);
            let b = end.as_f64();
            if nums.len() != *n {
                return Err(format!("linspace({a}, {b}, {n}) has {} elements", nums.len()));
            }
            if *n >= 1 && nums[0] != a {
                return Err(format!("linspace({a}, {b}, {n}) starts at {}", nums[0]));
            }
            if float {
                let st = if *n > 1 { (b - a) / (*n as f64 - 1.0) } else { 0.0 };
                for (i, x) in nums.iter().enumerate() {
                    let w = a + st * i as f64;
                    if (x - w).abs() > tol * w.abs().max(1.0) * 4.0 {
                        return Err(format!("linspace({a}, {b}, {n})[{i}] should be {w}, got {x}"));
                    }
                }
                if *n >= 2 && (nums[*n - 1] - b).abs() > tol * b.abs().max(1.0) * 4.0 {
                    return Err(format!("linspace({a}, {b}, {n}) ends at {}", nums[*n - 1]));
                }
            } else if *n >= 3 {
                let d = nums[1] - nums[0];
                for w in nums.windows(2) {
                    if w[1] - w[0] != d {
                        return Err(format!("linspace({a}, {b}, {n}) has no constant step: {nums:?}"));
                    }
                }
            }
        },
        GenKind::Full { len, v } => {
            let want = if v.is_null() { f64::NAN } else { v.as_f64() };
            if items.len() != *len {
                return Err(format!("full({len}, _) has {} elements", items.len()));
            }
            for x in &nums {
                if !(x == &want || (x.is_nan() && want.is_nan())) {
                    return Err(format!("full({len}, {want}) holds {x}"));
                }
            }
        },
        GenKind::Empty => {
            if !items.is_empty() {
                return Err(format!("empty() holds {} elements", items.len()));
            }
        },
        GenKind::OptCollect { .. } => {},
    }
    Ok(())
}

fn gen_name(g: &Gen) -> &'static str {
    match g.kind {
        GenKind::Range { .. } => "range",
        GenKind::Linspace { .. } => "linspace",
        GenKind::Full { .. } => "full",
        GenKind::Empty => "empty",
        GenKind::OptCollect { .. } => "collect_vec1_opt",
    }
}

/// `full(len, v)` / `empty()` with an element type that is Clone but not Copy: `len` live,
/// pairwise distinct instances, none dropped twice when the container goes away
fn check_gen_tracked(g: &Gen) -> (Vec<Violation>, RunStats) {
    let mut st = RunStats::default();
    let mut viol = vec![];
    st.executions += 1;
    trk_reset();
    let _ = sim_log_take();
    let (len, empty) = match &g.kind {
        GenKind::Full { len, .. } => (*len, false),
        GenKind::Empty => (0, true),
        _ => {
            st.harness_error = Some(format!("{HARNESS} tracked items only support full / empty"));
            return (viol, st);
        },
    };
    let out = g.out;
    let r = guarded(move || -> Result<(Vec<Obs>, Vec<u64>), String> {
        fn build<C: Vec1<Tracked> + SeqObs>(len: usize, empty: bool) -> (Vec<Obs>, Vec<u64>) {
            let c: C = if empty { C::empty() } else { C::full(len, Tracked::new(7)) };
            let seq = c.seq();
            let dead: Vec<u64> = seq
                .iter()
                .filter_map(|o| match o {
                    Obs::T(_, inst) if !trk_is_live(*inst) => Some(*inst),
                    _ => None,
                })
                .collect();
            drop(c);
            (seq, dead)
        }
        Ok(match out {
            Container::Vec => build::<Vec<Tracked>>(len, empty),
            Container::Deque => build::<VecDeque<Tracked>>(len, empty),
            Container::Array1 => build::<Array1<Tracked>>(len, empty),
            Container::Sim => build::<SimVec<Tracked>>(len, empty),
            Container::Plain => build::<PlainVec<Tracked>>(len, empty),
            Container::Polars => return Err(format!("{HARNESS} polars columns hold options")),
        })
    });
    let log = sim_log_take();
    let stage = format!("{}<{}>", gen_name(g), g.out.name());
    let mut complain = |oracle: &'static str, props: Vec<&'static str>, d: String| {
        viol.push(Violation { props, oracle, stage: stage.clone(), detail: d })
    };
    match r {
        Err(msg) => complain("H4", vec!["C09", "C19"], format!("library panicked: {msg}")),
        Ok(Err(e)) => st.harness_error = Some(e),
        Ok(Ok((seq, dead))) => {
            if seq.len() != len {
                complain("K0", vec!["C19"], format!("full({len}, _) holds {} elements", seq.len()));
            }
            let mut ids: Vec<u64> = seq.iter().filter_map(|o| if let Obs::T(_, i) = o { Some(*i) } else { None }).collect();
            ids.sort();
            ids.dedup();
            if ids.len() != seq.len() {
                complain("K5", vec!["C19"], format!("full({len}, _): elements share instances ({} distinct of {})", ids.len(), seq.len()));
            }
            if Iterator::any(&mut seq.iter(), |o| !matches!(o, Obs::T(7, _))) {
                complain("K0", vec!["C19"], format!("full({len}, v) holds something else than clones of v: {seq:?}"));
            }
            if !dead.is_empty() {
                complain("K5", vec!["C19"], format!("full({len}, _) holds dropped instances {dead:?}"));
            }
            let dd = trk_double_drops();
            if !dd.is_empty() {
                complain("K5", vec!["C19", "C09"], format!("full({len}, _): instances dropped twice {dd:?}"));
            }
        },
    }
    for rec in &log.streams {
        st.hints_checked += rec.hints.len() as u64;
        if rec.trusted {
            if let Some((y, h, total)) = rec.first_bad_hint() {
                viol.push(Violation {
                    props: vec!["C09"],
                    oracle: "H1i",
                    stage: stage.clone(),
                    detail: format!("iterator handed to the container: after {y} items upper bound {h:?}, total {total}"),
                });
            }
        }
    }
    if len == 0 {
        st.fault("empty_input");
    }
    st.hit("tracked_full_or_empty");
    let sig = format!("gen|tracked|{}|{}|{}", gen_name(g), g.out.name(), len.min(3));
    let mut h = 0xcbf2_9ce4_8422_2325u64;
    fnv(&mut h, sig.as_bytes());
    st.signature = h;
    st.digest = h ^ (viol.len() as u64);
    st.nontrivial = true;
    (viol, st)
}

/// K3 for element types beyond f64: `collect_vec1_opt` must store, for every `None`, a value the
/// element type itself regards as its null (`IsNone::is_none`), and the item otherwise.
fn check_opt_collect(g: &Gen, mask: &[bool]) -> (Vec<Violation>, RunStats) {
    let mut st = RunStats::default();
    let mut viol = vec![];
    st.executions += 1;
    fn run<T, C>(items: Vec<Option<T>>, get: impl Fn(&C) -> Vec<T>) -> Vec<T>
    where
        T: IsNone,
        C: Vec1<T>,
    {
        let c: C = items.into_iter().collect_vec1_opt();
        get(&c)
    }
    fn go<T: IsNone + Obsable + PartialEq + std::fmt::Debug>(
        out: Container,
        mask: &[bool],
        mk: impl Fn(usize) -> T,
    ) -> Result<Vec<String>, String> {
        let items: Vec<Option<T>> = mask.iter().enumerate().map(|(i, m)| if *m { None } else { Some(mk(i)) }).collect();
        let got: Vec<T> = match out {
            Container::Vec => run::<T, Vec<T>>(items, |c| c.clone()),
            Container::Deque => run::<T, VecDeque<T>>(items, |c| c.iter().cloned().collect()),
            Container::Array1 => run::<T, Array1<T>>(items, |c| c.iter().cloned().collect()),
            Container::Sim => run::<T, SimVec<T>>(items, |c| c.items.clone()),
            Container::Plain => run::<T, PlainVec<T>>(items, |c| c.items.clone()),
            Container::Polars => return Err(format!("{HARNESS} polars columns hold options")),
        };
        let mut bad = vec![];
        if got.len() != mask.len() {
            bad.push(format!("{} items collected from a stream of {}", got.len(), mask.len()));
            return Ok(bad);
        }
        for (i, (v, m)) in got.iter().zip(mask).enumerate() {
            if *m {
                if !v.is_none() {
                    bad.push(format!("position {i}: None was stored as {v:?}, which the element type does not regard as its null"));
                }
            } else if *v != mk(i) {
                bad.push(format!("position {i}: Some({:?}) was stored as {v:?}", mk(i)));
            }
        }
        Ok(bad)
    }
    let out = g.out;
    let ty = g.ty;
    let mask2 = mask.to_vec();
    let r = guarded(move || match ty {
        GenTy::Str => go::<String>(out, &mask2, |i| format!("v{i}")),
        GenTy::F32 => go::<f32>(out, &mask2, |i| i as f32 + 0.5),
        GenTy::F64 => go::<f64>(out, &mask2, |i| i as f64 - 1.5),
        _ => Err(format!("{HARNESS} optional collect scenario supports string, f32, f64")),
    });
    let _ = sim_log_take();
    let stage = format!("collect_vec1_opt<{}:{}>", g.out.name(), g.ty.name());
    match r {
        Err(msg) => viol.push(Violation {
            props: vec!["C19"],
            oracle: "H4",
            stage: stage.clone(),
            detail: format!("library panicked: {msg}"),
        }),
        Ok(Err(e)) => st.harness_error = Some(e),
        Ok(Ok(bad)) => {
            if let Some(b) = bad.first() {
                viol.push(Violation { props: vec!["C19"], oracle: "K3", stage: stage.clone(), detail: b.clone() });
            }
        },
    }
    if Iterator::any(&mut mask.iter(), |m| *m) {
        st.fault("none_item");
    }
    st.hit("optional_collect_by_element_type");
    let sig = format!("gen|optcollect|{}|{}|{:?}", g.ty.name(), g.out.name(), mask);
    let mut h = 0xcbf2_9ce4_8422_2325u64;
    fnv(&mut h, sig.as_bytes());
    st.signature = h;
    st.digest = h ^ (viol.len() as u64);
    st.nontrivial = true;
    (viol, st)
}

pub fn check_gen(g: &Gen) -> (Vec<Violation>, RunStats) {
    if let GenKind::OptCollect { mask } = &g.kind {
        return check_opt_collect(g, mask);
    }
    if g.ty == GenTy::Trk {
        return check_gen_tracked(g);
    }
    let mut st = RunStats::default();
    let mut viol = vec![];
    let stage = gen_name(g).to_string();
    let mut sig = format!("gen|{}|{}|{}", g.ty.name(), stage, g.out.name());
    st.executions += 1;
    let _ = sim_log_take();
    // phase 1: the simulator-owned container is the consumer of the library's iterator
    let probe = run_gen(g, Container::Sim);
    let log = sim_log_take();
    let mut probe_items: Option<Vec<Obs>> = None;
    match probe {
        Err(msg) => {
            if msg.starts_with(HARNESS) {
                st.harness_error = Some(msg);
            } else {
                viol.push(Violation {
                    props: vec!["C09", "C19"],
                    oracle: "H4",
                    stage: stage.clone(),
                    detail: format!("library panicked: {msg}"),
                });
            }
        },
        Ok(items) => {
            for rec in &log.streams {
                st.hints_checked += rec.hints.len() as u64;
                st.items_pulled += rec.items.len() as u64;
                if rec.trusted {
                    if let Some((y, h, total)) = rec.first_bad_hint() {
                        viol.push(Violation {
                            props: vec!["C09"],
                            oracle: "H1i",
                            stage: stage.clone(),
                            detail: format!(
                                "iterator handed to the container: after {y} items upper bound {h:?}, it yields {}{total} in total",
                                if rec.capped { "at least " } else { "" }
                            ),
                        });
                    }
                }
            }
            let capped = Iterator::any(&mut log.streams.iter(), |r| r.capped);
            if capped {
                st.hit("generator_not_exhaustible");
            }
            if let Err(d) = gen_oracle(g, &items) {
                viol.push(Violation { props: vec!["C19"], oracle: "K0", stage: stage.clone(), detail: d });
            }
            sig.push_str(&format!("|n={}", items.len().min(9)));
            if !capped {
                probe_items = Some(items);
            }
        },
    }
    // phase 2: the real container, only after the probe showed an honest hint
    if viol.is_empty() && g.out != Container::Sim {
        if let Some(want) = &probe_items {
            st.executions += 1;
            match run_gen(g, g.out) {
                Err(msg) => {
                    if msg.starts_with(HARNESS) {
                        st.harness_error = Some(msg);
                    } else {
                        viol.push(Violation {
                            props: vec!["C09", "C19"],
                            oracle: "H4",
                            stage: format!("{stage}<{}>", g.out.name()),
                            detail: format!("library panicked: {msg}"),
                        });
                    }
                },
                Ok(got) => {
                    if !obs_seq_same(&got, want) {
                        viol.push(Violation {
                            props: vec!["C09", "C19"],
                            oracle: "H2",
                            stage: format!("{stage}<{}>", g.out.name()),
                            detail: format!("container holds {got:?}, the iterator yields {want:?}"),
                        });
                    }
                },
            }
        }
    }
    let _ = sim_log_take();
    match &g.kind {
        GenKind::Range { start, end, step } => {
            let a = start.as_ref().map(|v| v.as_f64()).unwrap_or(0.0);
            let s = step.as_ref().map(|v| v.as_f64()).unwrap_or(1.0);
            let span = end.as_f64() - a;
            if span == 0.0 || (span > 0.0) != (s > 0.0) {
                st.fault("empty_span");
            } else if (span / s).fract() != 0.0 {
                st.fault("non_divisible_span");
            }
            if s < 0.0 {
                st.hit("negative_step");
            }
            sig.push_str(&format!("|{}|{}", span.signum(), s));
        },
        GenKind::Linspace { n, .. } => {
            if *n == 0 {
                st.fault("empty_input");
            }
            sig.push_str(&format!("|{n}"));
        },
        GenKind::Full { len, .. } => {
            if *len == 0 {
                st.fault("empty_input");
            }
        },
        GenKind::Empty => st.fault("empty_input"),
        GenKind::OptCollect { .. } => {},
    }
    let mut h = 0xcbf2_9ce4_8422_2325u64;
    fnv(&mut h, sig.as_bytes());
    st.signature = h;
    st.nontrivial = true;
    let mut d = 0xcbf2_9ce4_8422_2325u64;
    fnv(&mut d, format!("{probe_items:?}").as_bytes());
    st.digest = d;
    (viol, st)
}

// ---------------------------------------------------------------------------------------
// rolling drivers: default (lazy) paths into the simulator-owned container

fn make_deque<T: Clone>(data: Vec<T>, head: usize) -> VecDeque<T> {
    let n = data.len();
    let mut d: VecDeque<T> = VecDeque::with_capacity(n.max(1));
    if n > 0 {
        let cap = d.capacity();
        for _ in 0..(head % cap) {
            d.push_back(data[0].clone());
            d.pop_front();
        }
    }
    for v in data {
        d.push_back(v);
    }
    d
}

pub const ROLL_DRIVERS: u8 = 12;
/// pseudo driver: `v.opt().slice(s, e)` for every window in and just outside the view
pub const SLICE_SWEEP: u8 = 20;
/// pseudo drivers: rolling_custom / rolling2_custom with a caller buffer (`out = Some(..)`): on a
/// back end without the buffer-path override the lazy iterator is *written* into the buffer
pub const CUSTOM_OUT: u8 = 14;
pub const CUSTOM2_OUT: u8 = 15;

/// what the simulator-owned caller buffer saw
pub struct BufReport {
    pub len: usize,
    pub log: Vec<usize>,
    pub oob: Vec<usize>,
    pub twice: Vec<usize>,
    pub holes: usize,
    pub returned_some: bool,
    /// the library refused the write (clean panic out of `write(..).unwrap()`)
    pub refused: Option<String>,
    /// number of items of the series (= length of the lazy iterator)
    pub series: usize,
}

fn buf_report(u: SimUninit<i32>, res: Result<bool, String>, series: usize) -> BufReport {
    let (returned_some, refused) = match res {
        Ok(b) => (b, None),
        Err(m) => (false, Some(m)),
    };
    BufReport {
        refused,
        series,
        len: u.slots.len(),
        holes: u.slots.iter().filter(|s| s.is_none()).count(),
        log: u.log,
        oob: u.oob,
        twice: u.twice,
        returned_some,
    }
}

fn drive<V>(v: &V, o: &V, driver: u8, w: usize) -> Result<(), String>
where
    V: Vec1View<f64>,
{
    match driver {
        0 => {
            let _: SimVec<f64> = v.rolling_apply(w, |rm, x| x - rm.unwrap_or(0.0), None).unwrap();
        },
        1 => {
            let _: SimVec<i32> =
                v.rolling_apply_idx(w, |s, e, _x| (e - s.unwrap_or(0)) as i32, None).unwrap();
        },
        2 => {
            let _: SimVec<f64> = v.rolling2_apply(o, w, |_rm, (a, b)| a + b, None).unwrap();
        },
        3 => {
            let _: SimVec<f64> = v.rolling2_apply_idx(o, w, |_s, _e, (a, b)| a - b, None).unwrap();
        },
        6 => {
            let _: SimVec<f64> = v.ts_sum(w, None);
        },
        7 => {
            let _: SimVec<f64> = v.ts_vmean(w, Some(1));
        },
        8 => {
            let _: SimVec<f64> = v.ts_vstd(w, None);
        },
        9 => {
            let _: SimVec<f64> = v.ts_vmax(w, None);
        },
        10 => {
            let _: SimVec<f64> = v.ts_vcorr(o, w, None);
        },
        11 => {
            let _: SimVec<f64> = v.ts_vrank(w, None, false, false);
        },
        _ => return Err(format!("{HARNESS} driver {driver} not available for this backend")),
    }
    Ok(())
}

/// `OptIter::slice` collects a window of the view with the trusted collector: whatever it
/// returns must be exactly the window's items; a window reaching outside the view must be
/// refused (Err or panic), never answered with a container of elements that do not exist.
macro_rules! slice_sweep {
    ($v:expr, $data:expr, $viol:expr, $st:expr) => {{
    let v = $v;
    let data: &[f64] = $data;
    let viol: &mut Vec<Violation> = $viol;
    let st: &mut RunStats = $st;
    #[allow(unused_labels)]
    'sweep: {
    let len = data.len();
    let o = v.opt();
    for s in 0..=len + 2 {
        for e in s..=len + 2 {
            st.executions += 1;
            let r = guarded(|| o.slice(s, e));
            match r {
                Ok(Ok(w)) => {
                    let want: Vec<Option<f64>> =
                        data.iter().skip(s).take(e - s).map(|x| if x.is_nan() { None } else { Some(*x) }).collect();
                    let same = w.len() == want.len()
                        && Iterator::all(&mut w.iter().zip(&want), |(a, b)| a.map(f64::to_bits) == b.map(f64::to_bits));
                    // a window reaching outside the view may be refused or answered with the
                    // part that exists; what it may not hold is elements that do not exist
                    if w.len() != want.len() || !same || (e <= len && w.len() != e - s) {
                        viol.push(Violation {
                            props: vec!["C09"],
                            oracle: "H2",
                            stage: "opt_slice".into(),
                            detail: format!(
                                "opt().slice({s}, {e}) on a view of length {len} returned a container of length {} ({:?}); the window holds {:?}",
                                w.len(),
                                w,
                                want
                            ),
                        });
                        break 'sweep;
                    }
                    st.hit("opt_slice_in_range");
                },
                _ => {
                    if e <= len {
                        viol.push(Violation {
                            props: vec!["C09"],
                            oracle: "H4",
                            stage: "opt_slice".into(),
                            detail: format!("opt().slice({s}, {e}) on a view of length {len} failed"),
                        });
                        break 'sweep;
                    }
                    st.hit("opt_slice_out_of_range_refused");
                },
            }
        }
    }
    }
    }};
}

pub fn check_roll(r: &Roll) -> (Vec<Violation>, RunStats) {
    let mut st = RunStats::default();
    let mut viol = vec![];
    let data: Vec<f64> = r.data.iter().map(|v| v.as_f64()).collect();
    if r.driver == SLICE_SWEEP {
        match &r.backend {
            Backend::Vec => slice_sweep!(&data, &data, &mut viol, &mut st),
            Backend::Array1 => {
                let a = Array1::from_vec(data.clone());
                slice_sweep!(&a, &data, &mut viol, &mut st)
            },
            _ => st.harness_error = Some(format!("{HARNESS} slice sweep needs a vec or array1 backend")),
        }
        let sig = format!("slice|{}|{}", r.backend.kind(), r.data.len());
        let mut h = 0xcbf2_9ce4_8422_2325u64;
        fnv(&mut h, sig.as_bytes());
        st.signature = h;
        st.digest = h ^ viol.len() as u64;
        st.nontrivial = true;
        return (viol, st);
    }
    let _ = sim_log_take();
    st.executions += 1;
    let (driver, w) = (r.driver, r.window);
    let buf_delta = r.buf_delta;
    let backend = r.backend.clone();
    // the second series of the two-series drivers: same values, possibly shorter or longer.
    // A different length is only used where the library reads the second series through
    // checked accessors (lazy paths, VecDeque's `get`); the buffer paths of Vec / ndarray
    // read it unchecked, which is a caller contract (DESIGN 8.3), not exercised here.
    let other_len = (data.len() as i64 + r.other_delta).max(0) as usize;
    let other: Vec<f64> = (0..other_len).map(|i| if i < data.len() { data[i] } else { i as f64 * 0.5 }).collect();
    let unequal = other_len != data.len();
    let res = guarded(move || -> Result<Option<BufReport>, String> {
        let unit = |r: Result<(), String>| r.map(|()| None);
        match &backend {
            Backend::Vec => match driver {
                4 => {
                    let _: SimVec<i32> = data.rolling_custom(w, |s: &[f64]| s.len() as i32, None).unwrap();
                    Ok(None)
                },
                _ if unequal => Err(format!("{HARNESS} unequal series are not used with buffer-path backends")),
                5 => {
                    let _: SimVec<i32> = data
                        .rolling2_custom(&data, w, |a: &[f64], b: &[f64]| (a.len() + b.len()) as i32, None)
                        .unwrap();
                    Ok(None)
                },
                d => unit(drive(&data, &data, d, w)),
            },
            Backend::Deque { head } => {
                let v = make_deque(data, *head);
                let o = make_deque(other, (*head + 1) % 4);
                match driver {
                    4 => {
                        let _: SimVec<i32> = v
                            .rolling_custom(w, |s: std::collections::vec_deque::Iter<'_, f64>| {
                                ExactSizeIterator::len(&s) as i32
                            }, None)
                            .unwrap();
                        Ok(None)
                    },
                    CUSTOM_OUT => {
                        let n_series = v.len();
                        let mut u = <SimVec<i32> as Vec1<i32>>::uninit((n_series as i64 + buf_delta).max(0) as usize);
                        let res = guarded(|| {
                            let r: Option<SimVec<i32>> = v.rolling_custom(
                            w,
                            |s: std::collections::vec_deque::Iter<'_, f64>| ExactSizeIterator::len(&s) as i32,
                            Some(<SimVec<i32> as Vec1<i32>>::uninit_ref_mut(&mut u)),
                        );
                            r.is_some()
                        });
                        Ok(Some(buf_report(u, res, n_series)))
                    },
                    CUSTOM2_OUT => {
                        let n_series = v.len();
                        let mut u = <SimVec<i32> as Vec1<i32>>::uninit((n_series as i64 + buf_delta).max(0) as usize);
                        let res = guarded(|| {
                            let r: Option<SimVec<i32>> = v.rolling2_custom(
                            &o,
                            w,
                            |a: std::collections::vec_deque::Iter<'_, f64>,
                             b: std::collections::vec_deque::Iter<'_, f64>| {
                                (ExactSizeIterator::len(&a) + ExactSizeIterator::len(&b)) as i32
                            },
                            Some(<SimVec<i32> as Vec1<i32>>::uninit_ref_mut(&mut u)),
                        );
                            r.is_some()
                        });
                        Ok(Some(buf_report(u, res, n_series)))
                    },
                    5 => {
                        let _: SimVec<i32> = v
                            .rolling2_custom(
                                &o,
                                w,
                                |a: std::collections::vec_deque::Iter<'_, f64>,
                                 b: std::collections::vec_deque::Iter<'_, f64>| {
                                    (ExactSizeIterator::len(&a) + ExactSizeIterator::len(&b)) as i32
                                },
                                None,
                            )
                            .unwrap();
                        Ok(None)
                    },
                    d => unit(drive(&v, &o, d, w)),
                }
            },
            Backend::ArcDeque { head } => {
                unit(drive(&Arc::new(make_deque(data, *head)), &Arc::new(make_deque(other, *head)), driver, w))
            },
            Backend::Array1 if unequal => {
                Err(format!("{HARNESS} unequal series are not used with buffer-path backends"))
            },
            Backend::Array1 => {
                let a = Array1::from_vec(data);
                unit(drive(&a, &a, driver, w))
            },
            Backend::SimInput => {
                let v = SimVec::from_vec(data);
                let o = SimVec::from_vec(other);
                match driver {
                    CUSTOM_OUT => {
                        let n_series = v.items.len();
                        let mut u = <SimVec<i32> as Vec1<i32>>::uninit((n_series as i64 + buf_delta).max(0) as usize);
                        let res = guarded(|| {
                            let r: Option<SimVec<i32>> = v.rolling_custom(
                            w,
                            |s: &[f64]| s.len() as i32,
                            Some(<SimVec<i32> as Vec1<i32>>::uninit_ref_mut(&mut u)),
                        );
                            r.is_some()
                        });
                        Ok(Some(buf_report(u, res, n_series)))
                    },
                    CUSTOM2_OUT => {
                        let n_series = v.items.len();
                        let mut u = <SimVec<i32> as Vec1<i32>>::uninit((n_series as i64 + buf_delta).max(0) as usize);
                        let res = guarded(|| {
                            let r: Option<SimVec<i32>> = v.rolling2_custom(
                            &o,
                            w,
                            |a: &[f64], b: &[f64]| (a.len() + b.len()) as i32,
                            Some(<SimVec<i32> as Vec1<i32>>::uninit_ref_mut(&mut u)),
                        );
                            r.is_some()
                        });
                        Ok(Some(buf_report(u, res, n_series)))
                    },
                    d => unit(drive(&v, &o, d, w)),
                }
            },
            _ => Err(format!("{HARNESS} backend not available for rolling scenarios")),
        }
    });
    let log = sim_log_take();
    let stage = format!("rolling_driver_{}", r.driver);
    match res {
        // a panicking rolling driver hands out no iterator at all: nothing for C09 to say
        // (e.g. ts_vmax on an empty VecDeque asserts window > 0 after clamping; that is a
        // backend-independence matter, C07, recorded in DESIGN 8.3)
        Err(msg) => {
            if Iterator::any(&mut log.streams.iter(), |r| r.aborted && r.trusted) {
                // the driver had handed its lazy iterator to the output container and the
                // panic came out of a pull: the iterator failed in-domain
                viol.push(Violation {
                    props: vec!["C09"],
                    oracle: "H4",
                    stage: stage.clone(),
                    detail: format!("the internal iterator handed to the output container panicked while being pulled: {msg}"),
                });
            } else {
                st.hit("rolling_driver_panicked_before_handing_out_an_iterator");
                st.ended_early = Some(msg);
            }
        },
        Ok(Err(e)) => st.harness_error = Some(e),
        Ok(Ok(None)) => {},
        Ok(Ok(Some(b))) => {
            // C19, buffer clause: the lazy iterator written into the caller's buffer fills
            // every slot exactly once (broadcasting a single result), or the mismatch is
            // refused without any slot having been written
            st.hit("rolling_lazy_iterator_written_into_caller_buffer");
            let (m, bl) = (b.series, b.len);
            let want_ok = bl == 0 || m == bl || m == 1;
            let either = bl == 0 && m > 1;
            let mut seen = b.log.clone();
            seen.sort();
            let all: Vec<usize> = (0..bl).collect();
            let mut bad: Option<String> = None;
            if !b.oob.is_empty() {
                bad = Some("uset out of bounds".into());
            } else if either {
                // empty buffer, longer series: filling nothing or refusing are both fine
            } else if want_ok {
                if let Some(msg) = &b.refused {
                    bad = Some(format!("the write was refused: {msg}"));
                } else if bl > 0 && (seen != all || b.holes > 0) {
                    bad = Some("not every slot was written exactly once".into());
                } else if b.returned_some {
                    bad = Some("a container was returned although a buffer was given".into());
                }
            } else {
                st.fault(if m < bl { "len_mismatch_short" } else { "len_mismatch_long" });
                if b.refused.is_none() {
                    bad = Some("a length mismatch was not reported".into());
                } else {
                    let mut distinct = b.log.clone();
                    distinct.sort();
                    distinct.dedup();
                    if !distinct.is_empty() && distinct.len() < bl {
                        bad = Some("a length mismatch was reported after some, but not all, slots had been written".into());
                    }
                }
            }
            if let Some(why) = bad {
                viol.push(Violation {
                    props: vec!["C19"],
                    oracle: "K4",
                    stage: format!("{stage}<out buffer>"),
                    detail: format!(
                        "series of {m} items, buffer of length {bl}: {why} (uset calls at {:?}, out of bounds {:?}, twice {:?}, never written {}, refused {:?})",
                        b.log, b.oob, b.twice, b.holes, b.refused
                    ),
                });
            }
        },
    }
    let mut lazy = 0;
    for rec in &log.streams {
        st.hints_checked += rec.hints.len() as u64;
        st.items_pulled += rec.items.len() as u64;
        if rec.trusted {
            lazy += 1;
            if let Some((y, h, total)) = rec.first_bad_hint() {
                viol.push(Violation {
                    props: vec!["C09"],
                    oracle: "H1i",
                    stage: stage.clone(),
                    detail: format!(
                        "internal iterator handed to the output container: after {y} items upper bound {h:?}, total {total}"
                    ),
                });
            }
        }
    }
    if lazy > 0 {
        st.hit("rolling_lazy_path_interrogated");
    } else {
        st.hit("rolling_buffer_path");
    }
    if r.window > r.data.len() {
        st.hit("window_gt_len");
    }
    if r.other_delta < 0 {
        st.hit("second_series_shorter");
    } else if r.other_delta > 0 {
        st.hit("second_series_longer");
    }
    if r.data.is_empty() {
        st.fault("empty_input");
    }
    let sig = format!(
        "roll|{}|{}|{}|{}|{}|{}",
        r.other_delta.signum(),
        r.backend.kind(),
        r.driver,
        lazy,
        r.data.len().min(3),
        (r.window as i64 - r.data.len() as i64).signum()
    );
    let mut h = 0xcbf2_9ce4_8422_2325u64;
    fnv(&mut h, sig.as_bytes());
    st.signature = h;
    st.nontrivial = lazy > 0;
    let mut d = 0xcbf2_9ce4_8422_2325u64;
    for rec in &log.streams {
        fnv(&mut d, format!("{:?}{:?}", rec.hints, rec.items).as_bytes());
    }
    st.digest = d;
    (viol, st)
}
