//! In-crate PRNG so that a (seed, run index) pair means the same program forever.
//! SplitMix64 for key derivation, xoshiro256** for the per-run stream.

#[derive(Clone)]
pub struct Rng {
    s: [u64; 4],
}

pub fn splitmix64(x: &mut u64) -> u64 {
    *x = x.wrapping_add(0x9E37_79B9_7F4A_7C15);
    let mut z = *x;
    z = (z ^ (z >> 30)).wrapping_mul(0xBF58_476D_1CE4_E5B9);
    z = (z ^ (z >> 27)).wrapping_mul(0x94D0_49BB_1331_11EB);
    z ^ (z >> 31)
}

impl Rng {
    /// One run = one (seed, run_index, stream) triple.
    pub fn for_run(seed: u64, run: u64, stream: u64) -> Rng {
        let mut k = seed ^ 0xD1B5_4A32_D192_ED03;
        let a = splitmix64(&mut k);
        let mut k2 = a ^ run.wrapping_mul(0x9E37_79B9_7F4A_7C15) ^ stream.rotate_left(17);
        let s = [
            splitmix64(&mut k2),
            splitmix64(&mut k2),
            splitmix64(&mut k2),
            splitmix64(&mut k2),
        ];
        let mut r = Rng { s };
        if r.s == [0; 4] {
            r.s[0] = 1;
        }
        r
    }

    pub fn next_u64(&mut self) -> u64 {
        let result = self.s[1].wrapping_mul(5).rotate_left(7).wrapping_mul(9);
        let t = self.s[1] << 17;
        self.s[2] ^= self.s[0];
        self.s[3] ^= self.s[1];
        self.s[1] ^= self.s[2];
        self.s[0] ^= self.s[3];
        self.s[2] ^= t;
        self.s[3] = self.s[3].rotate_left(45);
        result
    }

    /// uniform in 0..n (n > 0)
    pub fn below(&mut self, n: usize) -> usize {
        debug_assert!(n > 0);
        // multiply-shift; bias is irrelevant at these sizes
        ((self.next_u64() as u128 * n as u128) >> 64) as usize
    }

    /// uniform in lo..=hi
    pub fn range_i(&mut self, lo: i64, hi: i64) -> i64 {
        debug_assert!(lo <= hi);
        lo + self.below((hi - lo + 1) as usize) as i64
    }

    /// true with probability num/den
    pub fn chance(&mut self, num: usize, den: usize) -> bool {
        self.below(den) < num
    }

    pub fn pick<'a, T>(&mut self, xs: &'a [T]) -> &'a T {
        &xs[self.below(xs.len())]
    }
}
