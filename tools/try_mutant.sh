#!/bin/sh
# apply a seeded change to /repo, run the registered quick check(s), undo it straight afterwards
# usage: try_mutant.sh <patch.diff> <prop> [quick|thorough]
set -u
P="$1"; PROP="$2"; TIER="${3:-quick}"
git -C /repo diff --quiet || { echo "/repo is dirty"; exit 9; }
git -C /repo apply "$P" || { echo "PATCH DOES NOT APPLY"; exit 3; }
cd /verif && ./check "$TIER" "$PROP" > /tmp/try_mutant.$$.log 2>&1; RC=$?
git -C /repo checkout -- .
( cd /verif && ./check build >/dev/null 2>&1 )
grep -E "^VIOLATION|^violation|^KNOWN|HARNESS" /tmp/try_mutant.$$.log | head -8
echo "check exit: $RC"
rm -f /tmp/try_mutant.$$.log
exit $RC
