#!/bin/sh
# run every seeded change under /verif/seeded through the quick check of its property
# (applies the patch to /repo, runs the check, reverts); writes seeded/RESULTS.md
# usage: tools/run_seeded.sh [quick|thorough] [id-glob]
TIER="${1:-quick}"; GLOB="${2:-*}"
cd /verif
git -C /repo diff --quiet || { echo "/repo is dirty"; exit 9; }
OUT=seeded/RESULTS.md
echo "# seeded changes vs. ./check $TIER ($(date -u +%Y-%m-%dT%H:%MZ), /repo $(git -C /repo rev-parse --short HEAD), /verif $(git rev-parse --short HEAD))" > $OUT
echo "" >> $OUT
echo "| seeded change | property | exit | first violation class |" >> $OUT
echo "|---|---|---|---|" >> $OUT
miss=0
for d in seeded/$GLOB/; do
    id=$(basename "$d")
    [ -f "$d/patch.diff" ] || continue
    prop=$(python3 -c "import json;print(json.load(open('$d/meta.json'))['property'])")
    tier=$(python3 -c "import json;print(json.load(open('$d/meta.json')).get('check_tier','$TIER'))")
    expmiss=$(python3 -c "import json;print(json.load(open('$d/meta.json')).get('expected_miss',False))")
    if [ "$tier" = polars ]; then
        /verif/tools/try_mutant_polars.sh "/verif/${d}patch.diff" "$prop" > /tmp/run_seeded.log 2>&1; rc=$?
        sed -i 's/^check exit.*//' /tmp/run_seeded.log
    else
        git -C /repo apply "/verif/${d}patch.diff" || { echo "| $id | $prop | patch does not apply | |" >> $OUT; continue; }
        ./check "$tier" "$prop" > /tmp/run_seeded.log 2>&1; rc=$?
        git -C /repo checkout -- .
    fi
    cls=$(grep -m1 "^violation of\|process died" /tmp/run_seeded.log | sed 's/^violation of [A-Z0-9]* \[\([^]]*\)\].*/\1/' | cut -c1-80)
    note=""; [ "$tier" = polars ] && note=" (Polars build, thorough tier)"; [ "$expmiss" = True ] && note=" (documented miss, see meta.json)"
    echo "| $id | $prop | $rc | $cls$note |" >> $OUT
    echo "$id $prop exit=$rc $cls$note"
    if [ $rc -ne 1 ] && [ "$expmiss" != True ]; then miss=$((miss+1)); fi
done
echo "" >> $OUT
echo "missed: $miss" >> $OUT
# the unchanged tree must be quiet afterwards
./check build >/dev/null 2>&1
echo "missed: $miss"
