#!/bin/sh
# Run every seeded change under /verif/seeded through the check of its property and write
# seeded/RESULTS.md. Works on scratch copies (git worktrees of the committed /verif and of
# /repo's HEAD under /tmp/seedrun, removed afterwards), so neither /repo nor the live /verif
# is touched while it runs: the scratch engine's path dependencies are pointed at the scratch
# repository, each patch is applied there, the check is run, the patch is reverted.
# usage: tools/run_seeded.sh [quick|thorough] [id-glob]
TIER="${1:-quick}"; GLOB="${2:-*}"
S="${SEEDRUN_DIR:-/tmp/seedrun}"   # scratch directory (override to run shards in parallel)
rm -rf "$S"; git -C /repo worktree prune; git -C /verif worktree prune
mkdir -p "$S"
git -C /repo worktree add --detach "$S/repo" HEAD >/dev/null 2>&1 || { echo "cannot create repo worktree"; exit 9; }
git -C /verif worktree add --detach "$S/verif" HEAD >/dev/null 2>&1 || { echo "cannot create verif worktree"; exit 9; }
sed -i "s|\"/repo/|\"$S/repo/|g" "$S/verif/streamsim/Cargo.toml"
cp /repo/Cargo.lock "$S/verif/streamsim/Cargo.lock" 2>/dev/null
OUT="${SEEDRUN_OUT:-/verif/seeded/RESULTS.md}"
TMP="$S/results.md"
echo "# seeded changes vs. ./check $TIER ($(date -u +%Y-%m-%dT%H:%MZ), /repo $(git -C /repo rev-parse --short HEAD), /verif $(git -C /verif rev-parse --short HEAD))" > $TMP
echo "" >> $TMP
echo "Each change is applied to a scratch copy of /repo, the committed checks are run against it, the change is reverted." >> $TMP
echo "" >> $TMP
echo "| seeded change | property | exit | first violation class |" >> $TMP
echo "|---|---|---|---|" >> $TMP
cd "$S/verif"
./check build >/dev/null 2>&1 || { echo "scratch engine does not build"; exit 2; }
./check quick C19 > "$S/base.log" 2>&1 || { echo "scratch check is not clean on the unchanged tree"; tail -5 "$S/base.log"; exit 2; }
miss=0
for d in /verif/seeded/$GLOB/; do
    id=$(basename "$d")
    [ -f "$d/patch.diff" ] || continue
    prop=$(python3 -c "import json;print(json.load(open('$d/meta.json'))['property'])")
    tier=$(python3 -c "import json;print(json.load(open('$d/meta.json')).get('check_tier','$TIER'))")
    expmiss=$(python3 -c "import json;print(json.load(open('$d/meta.json')).get('expected_miss',False))")
    git -C "$S/repo" apply "$d/patch.diff" || { echo "| $id | $prop | patch does not apply | |" >> $TMP; continue; }
    if [ "$tier" = polars ]; then
        ( cd streamsim && cargo build --release --features polars --target-dir target-polars 2>"$S/build.log" ) || { echo "polars build failed"; tail -5 "$S/build.log"; }
        ./streamsim/target-polars/release/streamsim run --prop "$prop" --tier thorough --scale 0.25 --label "polars back end" \
            --known "$S/verif/known_findings.jsonl" --replay-dir "$S/verif/replays" > "$S/run.log" 2>&1; rc=$?
    else
        ./check "$tier" "$prop" > "$S/run.log" 2>&1; rc=$?
    fi
    git -C "$S/repo" checkout -- .
    cls=$(grep -m1 "^violation of\|process died" "$S/run.log" | sed 's/^violation of [A-Z0-9]* \[\([^]]*\)\].*/\1/' | cut -c1-80)
    note=""; [ "$tier" = polars ] && note=" (Polars build, thorough tier)"; [ "$expmiss" = True ] && note=" (documented miss, see meta.json)"
    echo "| $id | $prop | $rc | $cls$note |" >> $TMP
    echo "$id $prop exit=$rc $cls$note"
    if [ $rc -ne 1 ] && [ "$expmiss" != True ]; then miss=$((miss+1)); fi
done
echo "" >> $TMP
echo "missed (not counting documented misses): $miss" >> $TMP
cp $TMP $OUT
cd /
git -C /repo worktree remove --force "$S/repo"; git -C /verif worktree remove --force "$S/verif"; rm -rf "$S"
echo "missed: $miss"
