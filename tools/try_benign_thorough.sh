#!/bin/sh
# apply a behaviour-preserving change to /repo, run BOTH thorough checks (dev, release, ASan, MSan,
# Polars builds; they must stay silent), undo it and restore the committed evidence files
# usage: try_benign_thorough.sh <patch.diff>
P="$1"
git -C /repo diff --quiet || { echo "/repo is dirty"; exit 9; }
git -C /repo apply "$P" || { echo "PATCH DOES NOT APPLY"; exit 3; }
cd /verif
RCS=""
for prop in C09 C19; do
    ./check thorough $prop > /tmp/try_benign_thorough.$prop.log 2>&1; rc=$?
    RCS="$RCS $prop=$rc"
    if [ $rc -ne 0 ]; then grep -E "^violation|^VIOLATION|HARNESS|process died" /tmp/try_benign_thorough.$prop.log | head -6; fi
done
git -C /repo checkout -- .
( cd /verif && ./check build >/dev/null 2>&1; git checkout evidence/C09.json evidence/C19.json 2>/dev/null )
echo "exits:$RCS"
