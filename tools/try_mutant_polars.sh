#!/bin/sh
# like try_mutant.sh, but only the Polars build of the engine (part of ./check thorough) is built and run
# usage: try_mutant_polars.sh <patch.diff> <prop>
set -u
P="$1"; PROP="$2"
git -C /repo diff --quiet || { echo "/repo is dirty"; exit 9; }
git -C /repo apply "$P" || { echo "PATCH DOES NOT APPLY"; exit 3; }
cd /verif/streamsim && cargo build --release --features polars --target-dir target-polars 2>/tmp/try_polars_build.log || { echo BUILD FAILED; tail -20 /tmp/try_polars_build.log; git -C /repo checkout -- .; exit 2; }
./target-polars/release/streamsim run --prop "$PROP" --tier thorough --scale 0.25 --label "polars back end" --known /verif/known_findings.jsonl --replay-dir /verif/replays > /tmp/try_mutant_polars.log 2>&1; RC=$?
git -C /repo checkout -- .
( cd /verif && ./check build >/dev/null 2>&1 )
grep -E "^VIOLATION|^violation|^KNOWN|HARNESS" /tmp/try_mutant_polars.log | head -8
echo "check exit: $RC"
exit $RC
