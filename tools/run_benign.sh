#!/bin/sh
# Run every behaviour-preserving change under /verif/benign through BOTH quick checks (they must
# stay silent) and write benign/RESULTS.md. Works on scratch copies like run_seeded.sh.
S=/tmp/benignrun
rm -rf "$S"; git -C /repo worktree prune; git -C /verif worktree prune
mkdir -p "$S"
git -C /repo worktree add --detach "$S/repo" HEAD >/dev/null 2>&1 || { echo "cannot create repo worktree"; exit 9; }
git -C /verif worktree add --detach "$S/verif" HEAD >/dev/null 2>&1 || { echo "cannot create verif worktree"; exit 9; }
sed -i "s|\"/repo/|\"$S/repo/|g" "$S/verif/streamsim/Cargo.toml"
OUT=/verif/benign/RESULTS.md
TMP="$S/results.md"
echo "# behaviour-preserving changes vs. ./check quick C09 and C19 ($(date -u +%Y-%m-%dT%H:%MZ), /repo $(git -C /repo rev-parse --short HEAD), /verif $(git -C /verif rev-parse --short HEAD))" > $TMP
echo "" >> $TMP
echo "| change | quick C09 exit | quick C19 exit |" >> $TMP
echo "|---|---|---|" >> $TMP
cd "$S/verif"
./check build >/dev/null 2>&1 || { echo "scratch engine does not build"; exit 2; }
alarms=0
for d in /verif/benign/*/; do
    id=$(basename "$d")
    [ -f "$d/patch.diff" ] || continue
    git -C "$S/repo" apply "$d/patch.diff" || { echo "| $id | patch does not apply | |" >> $TMP; continue; }
    tier=$(python3 -c "import json;print(json.load(open('$d/meta.json')).get('check_tier','quick'))")
    note=""
    if [ "$tier" = polars ]; then
        # changes inside polars.rs: only the Polars build of the engine (part of ./check thorough) sees them
        note=" (Polars build, thorough tier)"
        ( cd streamsim && cargo build --release --features polars --target-dir target-polars 2>"$S/build.log" ) || { echo "polars build failed"; tail -5 "$S/build.log"; }
        ./streamsim/target-polars/release/streamsim run --prop C09 --tier thorough --scale 0.25 --label "polars back end" \
            --known "$S/verif/known_findings.jsonl" --replay-dir "$S/verif/replays" > "$S/c09.log" 2>&1; r1=$?
        ./streamsim/target-polars/release/streamsim run --prop C19 --tier thorough --scale 0.25 --label "polars back end" \
            --known "$S/verif/known_findings.jsonl" --replay-dir "$S/verif/replays" > "$S/c19.log" 2>&1; r2=$?
    else
        ./check quick C09 > "$S/c09.log" 2>&1; r1=$?
        ./check quick C19 > "$S/c19.log" 2>&1; r2=$?
    fi
    git -C "$S/repo" checkout -- .
    echo "| $id | $r1$note | $r2$note |" >> $TMP
    echo "$id C09=$r1 C19=$r2"
    if [ $r1 -ne 0 ] || [ $r2 -ne 0 ]; then alarms=$((alarms+1)); grep -h "^violation of" "$S/c09.log" "$S/c19.log" | head -3; fi
done
echo "" >> $TMP
echo "false alarms: $alarms" >> $TMP
cp $TMP $OUT
cd /
git -C /repo worktree remove --force "$S/repo"; git -C /verif worktree remove --force "$S/verif"; rm -rf "$S"
echo "false alarms: $alarms"
