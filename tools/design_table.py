#!/usr/bin/env python3
"""regenerate the seeded-change table in DESIGN.md (between the SEEDED_TABLE markers) from seeded/*/meta.json"""
import json, glob, os, re
rows=[]
for d in sorted(glob.glob('/verif/seeded/*/')):
    m=json.load(open(d+'meta.json'))
    what=(m.get('what_breaks') or '').replace('\n',' ').replace('|','/')
    needs=(m.get('needs_to_manifest') or '').replace('\n',' ').replace('|','/')
    if len(what)>170: what=what[:167]+'...'
    if len(needs)>150: needs=needs[:147]+'...'
    rows.append(f"| `{m['id']}` | {m['property']} | {what} | {needs} | {m.get('caught_by','')} | `{m.get('violation_class','')}` |")
table="| seeded change | prop | what it breaks | needs | caught by | class reported |\n|---|---|---|---|---|---|\n"+"\n".join(rows)
s=open('/verif/DESIGN.md').read()
s=re.sub(r"<!-- SEEDED_TABLE_BEGIN -->.*<!-- SEEDED_TABLE_END -->", "<!-- SEEDED_TABLE_BEGIN -->\n"+table.replace('\\','\\\\')+"\n<!-- SEEDED_TABLE_END -->", s, flags=re.S)
open('/verif/DESIGN.md','w').write(s)
print(len(rows),"rows")
