#!/usr/bin/env python3
"""register a confirmed seeded change under /verif/seeded/<id>/ : patch.diff, demo.rs, meta.json"""
import json, shutil, sys, os
out, i, name, caught_by, caught_class = sys.argv[1:6]
d = f"/verif/seeded/{name}"
os.makedirs(d, exist_ok=True)
shutil.copy(f"{out}/patch{i}.diff", f"{d}/patch.diff")
shutil.copy(f"{out}/demo{i}.rs", f"{d}/demo.rs")
m = json.load(open(f"{out}/meta{i}.json"))
meta = {
    "id": name,
    "property": m.get("property"),
    "files_changed": m.get("files_changed"),
    "what_breaks": m.get("what_breaks"),
    "needs_to_manifest": m.get("needs_to_manifest"),
    "demo": {"crate": m.get("crate_for_demo"), "cargo_features": m.get("cargo_features_for_demo", ""),
             "observed_with_change": m.get("observed_with_change"), "observed_without_change": m.get("observed_without_change")},
    "author": "independent sub-agent given only the property text and a scratch worktree",
    "confirmed_by_me": "tools/confirm_mutant.sh in a scratch worktree: patch applies to /repo HEAD, `cargo test --workspace --no-fail-fast --offline` green with the change, demo passes without and fails with the change",
    "check_run": f"tools/try_mutant.sh seeded/{name}/patch.diff {m.get('property')}  (git -C /repo apply; ./check quick {m.get('property')}; git -C /repo checkout -- .)",
    "caught_by": caught_by,
    "violation_class": caught_class,
}
json.dump(meta, open(f"{d}/meta.json", "w"), indent=1)
print("registered", d)
