#!/bin/sh
# apply a behaviour-preserving change to /repo, build the Polars engine and run the Polars part of
# BOTH thorough checks (they must stay silent), undo it
# usage: try_benign_polars.sh <patch.diff>   (absolute path)
P="$1"
git -C /repo diff --quiet || { echo "/repo is dirty"; exit 9; }
git -C /repo apply "$P" || { echo "PATCH DOES NOT APPLY"; exit 3; }
cd /verif/streamsim && cargo build --release --features polars --target-dir target-polars 2>/tmp/try_polars_build.log || { echo BUILD FAILED; tail -20 /tmp/try_polars_build.log; git -C /repo checkout -- .; exit 2; }
RCS=""
for prop in C09 C19; do
    ./target-polars/release/streamsim run --prop "$prop" --tier thorough --scale 0.25 --label "polars back end" --known /verif/known_findings.jsonl --replay-dir /verif/replays > /tmp/try_benign_polars.$prop.log 2>&1; rc=$?
    RCS="$RCS $prop=$rc"
    if [ $rc -ne 0 ]; then grep -E "^violation|^VIOLATION|HARNESS|process died" /tmp/try_benign_polars.$prop.log | head -6; fi
done
git -C /repo checkout -- .
echo "exits:$RCS"
