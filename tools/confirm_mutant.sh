#!/bin/sh
# confirm a seeded change delivered by a sub-agent: applies, suite green, demo fails with / passes without
# usage: confirm_mutant.sh <outdir> <i>
set -u
OUT="$1"; I="$2"
WT=/tmp/wt/confirm
HEAD=$(git -C /repo rev-parse HEAD)
if [ ! -d "$WT" ]; then git -C /repo worktree add --detach "$WT" "$HEAD" >/dev/null 2>&1; fi
git -C "$WT" checkout -q --detach "$HEAD" && git -C "$WT" checkout -q -- . && git -C "$WT" clean -fdq -e target
CRATE=$(python3 -c "import json;print(json.load(open('$OUT/meta$I.json'))['crate_for_demo'])")
FEAT=$(python3 -c "import json;print(json.load(open('$OUT/meta$I.json')).get('cargo_features_for_demo',''))")
export CARGO_NET_OFFLINE=true
cd "$WT"
mkdir -p "$CRATE/tests" && cp "$OUT/demo$I.rs" "$CRATE/tests/demo.rs"
( cd "$CRATE" && eval "cargo test --test demo $FEAT --offline" >/tmp/wt/confirm.log 2>&1 ); R0=$?
echo "demo WITHOUT change: exit $R0 (want 0)"
rm -f "$CRATE/tests/demo.rs"
git apply "$OUT/patch$I.diff" || { echo "PATCH DOES NOT APPLY"; exit 3; }
cargo test --workspace --no-fail-fast --offline >/tmp/wt/confirm-suite.log 2>&1; RS=$?
echo "suite WITH change: exit $RS (want 0); $(grep -c '^test result: ok' /tmp/wt/confirm-suite.log) ok groups, failed: $(grep -E '^test result: FAILED' /tmp/wt/confirm-suite.log | wc -l)"
cp "$OUT/demo$I.rs" "$CRATE/tests/demo.rs"
( cd "$CRATE" && eval "cargo test --test demo $FEAT --offline" >/tmp/wt/confirm2.log 2>&1 ); R1=$?
echo "demo WITH change: exit $R1 (want non-zero)"
grep -E "panicked|assertion|left:|right:" /tmp/wt/confirm2.log | head -5
rm -f "$CRATE/tests/demo.rs"
git checkout -q -- . && git clean -fdq -e target
[ $R0 -eq 0 ] && [ $RS -eq 0 ] && [ $R1 -ne 0 ] && echo "CONFIRMED" || echo "NOT CONFIRMED"
